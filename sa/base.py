"""
E1 -- program model of /repo/tsdate built from source text only (stdlib ``ast``).

Nothing here imports tsdate, numba, numpy or tskit.  A ``Repo`` is built either from the
files under ``$VERIF_REPO`` (default /repo) or from in-memory source overrides (used by
the self-validation tier, which analyses edited copies of the sources without touching
the disk).
"""

import ast
import hashlib
import itertools
import os

from . import norm as _norm

PKG = "tsdate"


class AnalysisError(Exception):
    """The analysis cannot decide (anchor vanished, shape not recognised): exit 2."""


def U(node):
    """Normalised source text of an AST node (whitespace/paren independent)."""
    if node is None:
        return "None"
    if isinstance(node, str):
        return node
    return ast.unparse(node)


def repo_root():
    return os.environ.get("VERIF_REPO", "/repo")


class Mod:
    def __init__(self, name, path, src):
        self.name = name
        self.path = path
        self.src = src
        try:
            self.tree = ast.parse(src, filename=path)
        except SyntaxError as e:
            raise AnalysisError(f"{path} does not parse: {e}") from e
        # canonicalise presentation (drop `pass`, inline single-use temporaries, recover renamed
        # locals) before any rule looks at the tree -- see norm.py
        self.norm = _norm.normalise(self.tree, name) if os.environ.get("VERIF_NO_NORM") != "1" else {}
        self.funcs = {}  # dotted qualname -> FunctionDef
        self.classes = {}  # name -> ClassDef
        self.parent = {}  # ast node -> parent node
        self.imports = {}  # local name -> ("mod", modname) | ("sym", modname, symbol) | ("ext", dotted)
        self.consts = {}  # module-level NAME = <expr>
        self._index()

    def _index(self):
        for p in ast.walk(self.tree):
            for c in ast.iter_child_nodes(p):
                self.parent[c] = p

        def visit(body, prefix, cls):
            for n in body:
                if isinstance(n, (ast.FunctionDef, ast.AsyncFunctionDef)):
                    q = prefix + n.name
                    self.funcs[q] = n
                    n._qual = q
                    n._cls = cls
                    n._mod = self.name
                    # nested defs anywhere inside
                    for sub in ast.walk(n):
                        if sub is not n and isinstance(sub, ast.FunctionDef):
                            par = self.parent[sub]
                            # find nearest enclosing def
                            enc = par
                            while not isinstance(enc, (ast.FunctionDef, ast.ClassDef, ast.Module)):
                                enc = self.parent[enc]
                            if enc is n:
                                visit([sub], q + ".", cls)
                elif isinstance(n, ast.ClassDef):
                    self.classes[n.name] = n
                    visit(n.body, prefix + n.name + ".", n.name)

        visit(self.tree.body, "", None)
        for n in self.tree.body:
            if isinstance(n, ast.Import):
                for a in n.names:
                    self.imports[a.asname or a.name.split(".")[0]] = ("ext", a.name)
                    if a.name == PKG:
                        self.imports[a.asname or a.name] = ("mod", "__init__")
            elif isinstance(n, ast.ImportFrom):
                for a in n.names:
                    local = a.asname or a.name
                    if n.level >= 1 and not n.module:
                        self.imports[local] = ("mod", a.name)
                    elif n.level >= 1:
                        self.imports[local] = ("sym", n.module, a.name)
                    elif n.module and n.module.split(".")[0] == PKG:
                        rest = n.module.split(".")[1:]
                        if rest:
                            self.imports[local] = ("sym", rest[0], a.name)
                        else:
                            self.imports[local] = ("mod", a.name)
                    else:
                        self.imports[local] = ("ext", f"{n.module}.{a.name}")
            elif isinstance(n, ast.Assign) and len(n.targets) == 1 and isinstance(n.targets[0], ast.Name):
                self.consts[n.targets[0].id] = n.value

    def loc(self, node):
        return f"{PKG}/{self.name}.py:{getattr(node, 'lineno', 0)}"


class Repo:
    def __init__(self, root=None, overrides=None):
        self.root = root or repo_root()
        self.mods = {}
        pkgdir = os.path.join(self.root, PKG)
        if not os.path.isdir(pkgdir):
            raise AnalysisError(f"{pkgdir} not found")
        h = hashlib.sha256()
        for fn in sorted(os.listdir(pkgdir)):
            if not fn.endswith(".py"):
                continue
            name = fn[:-3]
            path = os.path.join(pkgdir, fn)
            if overrides and name in overrides:
                src = overrides[name]
            else:
                with open(path, encoding="utf-8") as f:
                    src = f.read()
            h.update(name.encode() + b"\0" + src.encode() + b"\0")
            self.mods[name] = Mod(name, path, src)
        self.digest = h.hexdigest()[:16]
        self._subclasses = None

    # ---- lookup -------------------------------------------------------------------
    def mod(self, name):
        if name not in self.mods:
            raise AnalysisError(f"module {PKG}/{name}.py not found (anchor vanished)")
        return self.mods[name]

    def fn(self, mod, qual):
        m = self.mod(mod)
        if qual not in m.funcs:
            raise AnalysisError(f"function {mod}.{qual} not found (anchor vanished)")
        return m.funcs[qual]

    def has_fn(self, mod, qual):
        return mod in self.mods and qual in self.mods[mod].funcs

    def cls(self, mod, name):
        m = self.mod(mod)
        if name not in m.classes:
            raise AnalysisError(f"class {mod}.{name} not found (anchor vanished)")
        return m.classes[name]

    def loc(self, fnode_or_mod, node=None):
        if isinstance(fnode_or_mod, str):
            return self.mods[fnode_or_mod].loc(node)
        f = fnode_or_mod
        return f"{PKG}/{f._mod}.py:{(node or f).lineno} {f._qual}"

    def all_funcs(self):
        for m in self.mods.values():
            for q, f in m.funcs.items():
                yield m.name, q, f

    # ---- class hierarchy -------------------------------------------------------------
    def bases(self, mod, cname):
        """resolved (mod, class) bases inside the package"""
        out = []
        c = self.mods[mod].classes[cname]
        for b in c.bases:
            if isinstance(b, ast.Name):
                if b.id in self.mods[mod].classes:
                    out.append((mod, b.id))
                else:
                    imp = self.mods[mod].imports.get(b.id)
                    if imp and imp[0] == "sym" and imp[2] in self.mods.get(imp[1], Mod("x", "x", "")).classes:
                        out.append((imp[1], imp[2]))
            elif isinstance(b, ast.Attribute) and isinstance(b.value, ast.Name):
                imp = self.mods[mod].imports.get(b.value.id)
                if imp and imp[0] == "mod" and imp[1] in self.mods and b.attr in self.mods[imp[1]].classes:
                    out.append((imp[1], b.attr))
        return out

    def mro(self, mod, cname):
        out, todo = [], [(mod, cname)]
        while todo:
            k = todo.pop(0)
            if k in out:
                continue
            out.append(k)
            todo.extend(self.bases(*k))
        return out

    def subclasses(self, mod, cname):
        if self._subclasses is None:
            self._subclasses = {}
            for m in self.mods.values():
                for c in m.classes:
                    for b in self.mro(m.name, c)[1:]:
                        self._subclasses.setdefault(b, []).append((m.name, c))
        return self._subclasses.get((mod, cname), [])

    def method(self, mod, cname, meth):
        """all definitions a ``self.meth`` call in class (mod, cname) may reach (CHA)"""
        out = []
        for m, c in self.mro(mod, cname):
            q = f"{c}.{meth}"
            if q in self.mods[m].funcs:
                out.append(self.mods[m].funcs[q])
                break
        for m, c in self.subclasses(mod, cname):
            q = f"{c}.{meth}"
            if q in self.mods[m].funcs and self.mods[m].funcs[q] not in out:
                out.append(self.mods[m].funcs[q])
        return out

    # ---- call resolution ------------------------------------------------------------
    def resolve_call(self, f, call):
        """Return list of FunctionDef/ClassDef targets inside the package, or [] when the
        callee is external / unknown.  ``f`` is the FunctionDef containing the call."""
        return self.resolve_callee(f, call.func)

    def resolve_callee(self, f, fn):
        m = self.mods[f._mod]
        if isinstance(fn, ast.Name):
            # nested def of an enclosing function
            q = f._qual
            while True:
                cand = f"{q}.{fn.id}"
                if cand in m.funcs:
                    return [m.funcs[cand]]
                if "." not in q:
                    break
                q = q.rsplit(".", 1)[0]
            if fn.id in m.funcs:
                return [m.funcs[fn.id]]
            if fn.id in m.classes:
                return [m.classes[fn.id]]
            imp = m.imports.get(fn.id)
            if imp and imp[0] == "sym" and imp[1] in self.mods:
                t = self.mods[imp[1]]
                if imp[2] in t.funcs:
                    return [t.funcs[imp[2]]]
                if imp[2] in t.classes:
                    return [t.classes[imp[2]]]
            return []
        if isinstance(fn, ast.Attribute):
            v = fn.value
            if isinstance(v, ast.Name):
                if v.id in ("self", "cls") and f._cls:
                    return self.method(f._mod, f._cls, fn.attr)
                imp = m.imports.get(v.id)
                if imp and imp[0] == "mod" and imp[1] in self.mods:
                    t = self.mods[imp[1]]
                    if fn.attr in t.funcs:
                        return [t.funcs[fn.attr]]
                    if fn.attr in t.classes:
                        return [t.classes[fn.attr]]
                    if imp[1] == "__init__":
                        # ``tsdate.x`` re-exported symbol
                        ii = t.imports.get(fn.attr)
                        if ii and ii[0] == "sym" and ii[1] in self.mods:
                            tt = self.mods[ii[1]]
                            if ii[2] in tt.funcs:
                                return [tt.funcs[ii[2]]]
                    return []
                if v.id in m.classes:
                    q = f"{v.id}.{fn.attr}"
                    if q in m.funcs:
                        return [m.funcs[q]]
            if isinstance(v, ast.Call) and isinstance(v.func, ast.Name) and v.func.id == "super" and f._cls:
                for mm, cc in self.mro(f._mod, f._cls)[1:]:
                    q = f"{cc}.{fn.attr}"
                    if q in self.mods[mm].funcs:
                        return [self.mods[mm].funcs[q]]
        return []

    def class_init(self, cdef, mod):
        for mm, cc in self.mro(mod, cdef.name):
            q = f"{cc}.__init__"
            if q in self.mods[mm].funcs:
                return self.mods[mm].funcs[q]
        return None


# ---------------------------------------------------------------------------------------
# structural helpers


def own_nodes(f):
    """all AST nodes of function ``f`` excluding the bodies of nested defs/classes"""
    todo = list(ast.iter_child_nodes(f))[::-1]
    while todo:
        n = todo.pop()
        yield n
        if isinstance(n, (ast.FunctionDef, ast.AsyncFunctionDef, ast.ClassDef, ast.Lambda)):
            continue
        todo.extend(list(ast.iter_child_nodes(n))[::-1])  # pre-order, source order


def calls_in(node, own=True):
    it = own_nodes(node) if own and isinstance(node, (ast.FunctionDef,)) else ast.walk(node)
    return [n for n in it if isinstance(n, ast.Call)]


def callee_name(call):
    """dotted text of a call's function, e.g. 'np.zeros', 'self.rescale', 'tables.sort'"""
    return U(call.func)


def call_arg(call, pos, kw, fdef=None):
    """argument expression by position or keyword (None when absent)"""
    for k in call.keywords:
        if k.arg == kw:
            return k.value
    if pos is not None and pos < len(call.args) and not any(isinstance(a, ast.Starred) for a in call.args[: pos + 1]):
        return call.args[pos]
    return None


def params(fdef, skip_self=True):
    a = fdef.args
    names = [x.arg for x in a.posonlyargs + a.args]
    if skip_self and names and names[0] in ("self", "cls"):
        names = names[1:]
    return names


def all_params(fdef):
    a = fdef.args
    return [x.arg for x in a.posonlyargs + a.args + a.kwonlyargs]


def param_default(fdef, name):
    a = fdef.args
    pos = a.posonlyargs + a.args
    for arg, d in zip(pos[len(pos) - len(a.defaults) :], a.defaults):
        if arg.arg == name:
            return d
    for arg, d in zip(a.kwonlyargs, a.kw_defaults):
        if arg.arg == name:
            return d
    return None


def bind_args(call, fdef, method=False):
    """map parameter name -> argument expression for a call to ``fdef``
    (positional, keyword; ``**x`` recorded under key '**')."""
    names = params(fdef, skip_self=method)
    out = {}
    for i, a in enumerate(call.args):
        if isinstance(a, ast.Starred):
            out["*"] = a.value
            break
        if i < len(names):
            out[names[i]] = a
    for k in call.keywords:
        if k.arg is None:
            out["**"] = k.value
        else:
            out[k.arg] = k.value
    return out


TERMINATORS = (ast.Return, ast.Raise, ast.Continue, ast.Break)


def always_exits(body):
    """True when a block cannot fall through (ends in return/raise/continue/break on all
    branches)"""
    if not body:
        return False
    last = body[-1]
    if isinstance(last, TERMINATORS):
        return True
    if isinstance(last, ast.If):
        return bool(last.orelse) and always_exits(last.body) and always_exits(last.orelse)
    if isinstance(last, ast.With):
        return always_exits(last.body)
    if isinstance(last, ast.Expr) and isinstance(last.value, ast.Call) and U(last.value.func) in ("error_exit", "sys.exit", "exit"):
        return True
    return False


def walk_guarded(body, guards=(), asserts=False):
    """Yield (stmt, guards) for every statement, recursively.  ``guards`` is a tuple of
    (expr, polarity) that control the statement, including the implicit ``not test`` that
    follows an ``if test: <exit>`` in the same block (structured control dependence).
    Loop membership is recorded as ("loop", node) entries, handlers as ("except", node)."""
    guards = tuple(guards)
    for s in body:
        yield s, guards
        if isinstance(s, ast.If):
            yield from walk_guarded(s.body, guards + ((s.test, True),), asserts)
            yield from walk_guarded(s.orelse, guards + ((s.test, False),), asserts)
            if always_exits(s.body) and not always_exits(s.orelse):
                guards = guards + ((s.test, False),)
            elif s.orelse and always_exits(s.orelse) and not always_exits(s.body):
                guards = guards + ((s.test, True),)
        elif isinstance(s, (ast.For, ast.While)):
            g = guards + (("loop", s),)
            if isinstance(s, ast.While):
                g = g + ((s.test, True),)
            yield from walk_guarded(s.body, g, asserts)
            yield from walk_guarded(s.orelse, guards, asserts)
        elif isinstance(s, ast.With):
            yield from walk_guarded(s.body, guards, asserts)
        elif isinstance(s, ast.Try):
            yield from walk_guarded(s.body, guards + (("try", s),), asserts)
            for h in s.handlers:
                yield from walk_guarded(h.body, guards + (("except", h),), asserts)
            yield from walk_guarded(s.orelse, guards, asserts)
            yield from walk_guarded(s.finalbody, guards, asserts)
        elif isinstance(s, ast.Assert) and asserts:
            # statements after an assert are guarded by it
            guards = guards + ((s.test, True),)


def bool_guards(guards):
    return [(e, pol) for e, pol in guards if not isinstance(e, str)]


def guard_text(guards):
    out = []
    for e, pol in guards:
        if isinstance(e, str):
            continue
        out.append(U(e) if pol else f"not ({U(e)})")
    return " and ".join(out) if out else "True"


def stmts(f, asserts=False):
    """every statement of a function with its guards (nested defs are not entered)"""
    return list(walk_guarded(f.body, (), asserts))


# ---------------------------------------------------------------------------------------
# boolean formulas over atoms, truth-table implication


def formula(e, pol=True):
    """expr -> nested tuple formula: ('atom', text) | ('not', f) | ('and', [..]) | ('or', [..])"""
    if isinstance(e, ast.BoolOp):
        parts = [formula(v) for v in e.values]
        f = ("and" if isinstance(e.op, ast.And) else "or", parts)
    elif isinstance(e, ast.UnaryOp) and isinstance(e.op, ast.Not):
        f = ("not", formula(e.operand))
    elif isinstance(e, ast.Compare) and len(e.ops) > 1:
        parts, left = [], e.left
        for op, right in zip(e.ops, e.comparators):
            parts.append(formula(ast.Compare(left=left, ops=[op], comparators=[right])))
            left = right
        f = ("and", parts)
    elif isinstance(e, ast.Compare) and isinstance(e.ops[0], (ast.NotEq, ast.IsNot, ast.NotIn)):
        pos = {ast.NotEq: ast.Eq, ast.IsNot: ast.Is, ast.NotIn: ast.In}[type(e.ops[0])]()
        f = ("not", ("atom", U(ast.Compare(left=e.left, ops=[pos], comparators=e.comparators))))
    elif isinstance(e, ast.Constant) and isinstance(e.value, bool):
        f = ("const", e.value)
    else:
        f = ("atom", U(e))
    return f if pol else ("not", f)


def guards_formula(guards):
    return ("and", [formula(e, pol) for e, pol in bool_guards(guards)])


def atoms(f, acc=None):
    acc = set() if acc is None else acc
    if f[0] == "atom":
        acc.add(f[1])
    elif f[0] == "not":
        atoms(f[1], acc)
    elif f[0] in ("and", "or"):
        for p in f[1]:
            atoms(p, acc)
    return acc


def evalf(f, env):
    k = f[0]
    if k == "atom":
        return env[f[1]]
    if k == "const":
        return f[1]
    if k == "not":
        return not evalf(f[1], env)
    if k == "and":
        return all(evalf(p, env) for p in f[1])
    if k == "or":
        return any(evalf(p, env) for p in f[1])
    raise ValueError(k)


def implies(premise, conclusion, consistent=None, max_atoms=14):
    """truth-table check premise => conclusion. ``consistent(env)`` may exclude
    assignments that are impossible in the atom theory."""
    at = sorted(atoms(premise) | atoms(conclusion))
    if len(at) > max_atoms:
        raise AnalysisError(f"too many guard atoms ({len(at)})")
    for vals in itertools.product((False, True), repeat=len(at)):
        env = dict(zip(at, vals))
        if consistent and not consistent(env):
            continue
        if evalf(premise, env) and not evalf(conclusion, env):
            return False
    return True


# ---------------------------------------------------------------------------------------
# flow-insensitive local definitions ("origins")


class Defs:
    """All bindings of local names in one function.  ``origins(expr)`` follows pure
    copies (x = y, tuple unpacking of tuple displays) and returns the set of terminal
    expressions (as normalised text) the value may be a copy of.  Union over all
    definitions: sound for 'originates only from' obligations."""

    def __init__(self, f):
        self.f = f
        self.defs = {}  # name -> list of value expr (or ("iter", expr) / ("aug", node) / ("param",))
        for p in all_params(f):
            self.defs.setdefault(p, []).append(("param", p))
        if f.args.vararg:
            self.defs.setdefault(f.args.vararg.arg, []).append(("param", f.args.vararg.arg))
        if f.args.kwarg:
            self.defs.setdefault(f.args.kwarg.arg, []).append(("param", f.args.kwarg.arg))
        for n in own_nodes(f):
            if isinstance(n, ast.Assign):
                for t in n.targets:
                    self._bind(t, n.value)
            elif isinstance(n, ast.AnnAssign) and n.value is not None:
                self._bind(n.target, n.value)
            elif isinstance(n, ast.AugAssign):
                if isinstance(n.target, ast.Name):
                    self.defs.setdefault(n.target.id, []).append(("aug", n))
            elif isinstance(n, (ast.For, ast.comprehension)):
                self._bind(n.target, ("iter", n.iter))
            elif isinstance(n, ast.With):
                for it in n.items:
                    if it.optional_vars is not None:
                        self._bind(it.optional_vars, ("with", it.context_expr))
            elif isinstance(n, ast.NamedExpr):
                self._bind(n.target, n.value)
            elif isinstance(n, ast.ExceptHandler) and n.name:
                self.defs.setdefault(n.name, []).append(("except", n))

    def _bind(self, target, value):
        if isinstance(target, ast.Name):
            self.defs.setdefault(target.id, []).append(value)
        elif isinstance(target, (ast.Tuple, ast.List)):
            if isinstance(value, (ast.Tuple, ast.List)) and len(value.elts) == len(target.elts):
                for t, v in zip(target.elts, value.elts):
                    self._bind(t, v)
            else:
                for i, t in enumerate(target.elts):
                    self._bind(t, ("unpack", value, i))
        elif isinstance(target, ast.Starred):
            self._bind(target.value, ("unpack", value, "*"))

    def values(self, name):
        return self.defs.get(name, [])

    def single(self, name):
        """the unique defining expression of a local, else None"""
        v = self.defs.get(name, [])
        if len(v) == 1 and isinstance(v[0], ast.AST):
            return v[0]
        return None

    def origins(self, e, _seen=None):
        _seen = _seen or set()
        if isinstance(e, ast.Name):
            if e.id in _seen:
                return set()
            vals = self.defs.get(e.id)
            if not vals:
                return {e.id}
            out = set()
            for v in vals:
                if isinstance(v, ast.AST):
                    out |= self.origins(v, _seen | {e.id})
                elif v[0] == "param":
                    out.add(f"<param {v[1]}>")
                elif v[0] == "unpack":
                    src = v[1]
                    stxt = U(src) if isinstance(src, ast.AST) else f"{src[0]}({U(src[1])})"
                    out.add(f"{stxt}[{v[2]}]")
                elif v[0] == "aug":
                    out.add(f"<aug {U(v[1])}>")
                else:
                    out.add(f"<{v[0]} {U(v[1])}>")
            return out
        return {U(e)}

    def inline(self, e, depth=6):
        """copy of ``e`` with single-definition locals replaced by their definition"""

        defs = self

        class T(ast.NodeTransformer):
            def visit_Name(self, n):
                if isinstance(n.ctx, ast.Load) and depth > 0:
                    v = defs.single(n.id)
                    if v is not None and not any(isinstance(x, ast.Name) and x.id == n.id for x in ast.walk(v)):
                        return defs.inline(v, depth - 1)
                return n

        import copy

        return T().visit(copy.deepcopy(e))


def names_in(e):
    return {n.id for n in ast.walk(e) if isinstance(n, ast.Name)}


def contains_name(e, name):
    return any(isinstance(n, ast.Name) and n.id == name for n in ast.walk(e))


def attr_chain(e):
    """'a.b.c' for Name/Attribute chains, else None"""
    parts = []
    while isinstance(e, ast.Attribute):
        parts.append(e.attr)
        e = e.value
    if isinstance(e, ast.Name):
        parts.append(e.id)
        return ".".join(reversed(parts))
    return None


def store_targets(s):
    """flattened store targets of an assignment-like statement"""
    out = []

    def flat(t):
        if isinstance(t, (ast.Tuple, ast.List)):
            for x in t.elts:
                flat(x)
        elif isinstance(t, ast.Starred):
            flat(t.value)
        else:
            out.append(t)

    if isinstance(s, ast.Assign):
        for t in s.targets:
            flat(t)
    elif isinstance(s, (ast.AugAssign, ast.AnnAssign)):
        flat(s.target)
    return out


def subscript_base(t):
    """for a store target ``a[i][j]`` / ``a.b[i]`` return the base expression ``a`` / ``a.b``"""
    while isinstance(t, ast.Subscript):
        t = t.value
    return t
