"""Whole-package call graph (over-approximate) and reachability."""

import ast

from .base import U, own_nodes


class CallGraph:
    def __init__(self, repo):
        self.repo = repo
        self.methods_by_name = {}
        for mname, q, f in repo.all_funcs():
            if f._cls and q.count(".") == 1:
                self.methods_by_name.setdefault(f.name, []).append(f)
        self.edges = {}
        self.unresolved = {}
        for mname, q, f in repo.all_funcs():
            self.edges[f] = self._out(f)
            # nested defs are reachable from their encloser
        for mname, q, f in repo.all_funcs():
            if "." in q:
                outer = repo.mods[mname].funcs.get(q.rsplit(".", 1)[0])
                if outer is not None and outer is not f and (f._cls is None or q.count(".") > 1):
                    self.edges[outer].add(f)

    def _class_targets(self, cdef, mod):
        out = set()
        init = self.repo.class_init(cdef, mod)
        if init is not None:
            out.add(init)
        return out

    def _mod_of_class(self, cdef):
        for m in self.repo.mods.values():
            if m.classes.get(cdef.name) is cdef:
                return m.name
        return None

    def _out(self, f):
        repo = self.repo
        m = repo.mods[f._mod]
        out = set()
        unres = []
        call_funcs = set()
        for n in own_nodes(f):
            if isinstance(n, ast.Call):
                call_funcs.add(id(n.func))
                tg = repo.resolve_call(f, n)
                if tg:
                    for t in tg:
                        if isinstance(t, ast.ClassDef):
                            out |= self._class_targets(t, self._mod_of_class(t))
                        else:
                            out.add(t)
                elif isinstance(n.func, ast.Attribute):
                    # method on an object of unknown class: class hierarchy by name
                    cands = self.methods_by_name.get(n.func.attr, [])
                    base = n.func.value
                    root = base
                    while isinstance(root, (ast.Attribute, ast.Subscript, ast.Call)):
                        root = root.value if not isinstance(root, ast.Call) else root.func
                    ext = isinstance(root, ast.Name) and m.imports.get(root.id, ("",))[0] == "ext"
                    if cands and not ext:
                        out |= set(cands)
                    elif not ext:
                        unres.append(U(n.func))
                    # getattr(prior, self.prior_grid_func_name)
                if isinstance(n.func, ast.Name) and n.func.id == "getattr" and len(n.args) >= 2:
                    tgt_mod = n.args[0]
                    if isinstance(tgt_mod, ast.Name):
                        imp = m.imports.get(tgt_mod.id)
                        if imp and imp[0] == "mod" and imp[1] in repo.mods:
                            names = self._string_values(f, n.args[1])
                            for s in names:
                                if s in repo.mods[imp[1]].funcs:
                                    out.add(repo.mods[imp[1]].funcs[s])
        # references to functions as values (partial, registries, attribute assignment)
        for n in own_nodes(f):
            if isinstance(n, (ast.Name, ast.Attribute)) and isinstance(getattr(n, "ctx", None), ast.Load) and id(n) not in call_funcs:
                for t in repo.resolve_callee(f, n):
                    if isinstance(t, ast.FunctionDef):
                        out.add(t)
                    elif isinstance(t, ast.ClassDef):
                        out |= self._class_targets(t, self._mod_of_class(t))
                # module-level registry
                if isinstance(n, ast.Name) and n.id in m.consts and isinstance(m.consts[n.id], (ast.Dict, ast.List, ast.Tuple)):
                    for x in ast.walk(m.consts[n.id]):
                        if isinstance(x, ast.Name) and x.id in m.funcs:
                            out.add(m.funcs[x.id])
        self.unresolved[f] = unres
        return out

    def _string_values(self, f, e):
        """possible string constants of ``self.attr`` (class constants across the hierarchy)"""
        out = set()
        if isinstance(e, ast.Constant) and isinstance(e.value, str):
            return {e.value}
        if isinstance(e, ast.Attribute) and U(e.value) == "self" and f._cls:
            classes = self.repo.mro(f._mod, f._cls) + self.repo.subclasses(f._mod, f._cls)
            for mm, cc in classes:
                for s in self.repo.mods[mm].classes[cc].body:
                    if isinstance(s, ast.Assign) and any(isinstance(t, ast.Name) and t.id == e.attr for t in s.targets):
                        if isinstance(s.value, ast.Constant) and isinstance(s.value.value, str):
                            out.add(s.value.value)
        return out

    def reachable(self, roots, stop=()):
        seen = set()
        todo = list(roots)
        stop = set(stop)
        while todo:
            f = todo.pop()
            if f in seen or f in stop:
                continue
            seen.add(f)
            todo.extend(self.edges.get(f, ()))
        return seen

    def path(self, roots, target):
        """one call chain from a root to ``target`` (for diagnostics)"""
        prev = {r: None for r in roots}
        todo = list(roots)
        while todo:
            f = todo.pop(0)
            if f is target:
                chain = []
                while f is not None:
                    chain.append(f"{f._mod}.{f._qual}")
                    f = prev[f]
                return " <- ".join(chain)
            for g in self.edges.get(f, ()):
                if g not in prev:
                    prev[g] = f
                    todo.append(g)
        return None
