"""
E2 -- numba signature conformance.

Every jitted function of the package that carries an explicit signature is compiled for
exactly that signature; a Python-level call whose argument types do not match raises
``TypeError: No matching definition`` for every input.  This module

* evaluates the repository's own type vocabulary (``_f1r = numba.types.Array(_f, 1, "C",
  readonly=True)`` ...) abstractly,
* parses the signature of every jitted function,
* infers an abstract type for each actual argument at every Python-level call site of
  such a function (tskit attribute table, numpy constructor/combinator table, return
  types of kernels from their own signatures, attribute environment of classes,
  interprocedural return types of plain package functions),
* reports a *definite* mismatch (both sides known); unknown is counted, not reported.
"""

import ast

from .base import AnalysisError, Defs, U, all_params, bind_args, own_nodes, params

# ---------------------------------------------------------------------------------------
# abstract types


class T:
    """abstract value type"""

    def __init__(self, kind, **kw):
        self.kind = kind  # 'arr' 'scalar' 'none' 'tuple' 'obj' 'list' 'str' 'top' 'ts' 'tables' 'table'
        self.dtype = kw.get("dtype")  # 'f8' 'i4' 'i8' 'u4' 'b1' None(unknown)
        self.ndim = kw.get("ndim")
        self.contig = kw.get("contig")  # True / False / None
        self.writable = kw.get("writable")  # True / False / None
        self.elts = kw.get("elts")  # tuple
        self.name = kw.get("name")  # obj class name / scalar kind

    def __repr__(self):
        if self.kind == "arr":
            lay = {True: "C", False: "non-contiguous", None: "?"}[self.contig]
            w = {True: "writable", False: "read-only", None: "?"}[self.writable]
            return f"array({self.dtype or '?'}, {self.ndim if self.ndim is not None else '?'}d, {lay}, {w})"
        if self.kind == "scalar":
            return f"scalar({self.name or '?'})"
        if self.kind == "tuple":
            return "tuple(" + ", ".join(map(repr, self.elts)) + ")"
        if self.kind == "obj":
            return f"object({self.name})"
        return self.kind

    def key(self):
        return repr(self)


TOP = T("top")
NONE = T("none")


def arr(dtype=None, ndim=None, contig=None, writable=None):
    return T("arr", dtype=dtype, ndim=ndim, contig=contig, writable=writable)


def scalar(name=None):
    return T("scalar", name=name)


def tup(elts):
    return T("tuple", elts=tuple(elts))


def join(a, b):
    if a is None:
        return b
    if b is None:
        return a
    if a.kind != b.kind:
        return TOP
    if a.kind == "arr":
        f = lambda x, y: x if x == y else None  # noqa: E731
        return arr(f(a.dtype, b.dtype), f(a.ndim, b.ndim), f(a.contig, b.contig), f(a.writable, b.writable))
    if a.kind == "scalar":
        return scalar(a.name if a.name == b.name else None)
    if a.kind == "tuple":
        if len(a.elts) != len(b.elts):
            return TOP
        return tup(join(x, y) for x, y in zip(a.elts, b.elts))
    if a.kind == "obj":
        return a if a.name == b.name else TOP
    return a


# tskit TreeSequence attribute types (confirmed once against tskit 1.0 / numpy 2)
TS_ARRAYS = {}
for _n in (
    "edges_parent edges_child mutations_node mutations_site mutations_parent nodes_individual "
    "nodes_population indexes_edge_insertion_order indexes_edge_removal_order individuals_population"
).split():
    TS_ARRAYS[_n] = ("i4", 1)
for _n in "edges_left edges_right nodes_time mutations_time sites_position individuals_time".split():
    TS_ARRAYS[_n] = ("f8", 1)
TS_ARRAYS["nodes_flags"] = ("u4", 1)
TS_ARRAYS["individuals_flags"] = ("u4", 1)
TS_SCALARS = {
    "num_nodes": "int", "num_edges": "int", "num_samples": "int", "num_trees": "int", "num_mutations": "int",
    "num_sites": "int", "num_individuals": "int", "num_populations": "int", "sequence_length": "float",
    "num_provenances": "int", "num_migrations": "int",
}  # fmt: skip
TS_NAMES = {"ts", "tree_sequence", "self.ts"}

NP_DTYPES = {
    "np.int32": "i4", "np.int64": "i8", "np.float64": "f8", "np.float32": "f4", "np.uint32": "u4",
    "np.bool_": "b1", "bool": "b1", "int": "i8", "float": "f8", "np.uint64": "u8", "np.int8": "i1",
    "np.uint8": "u1", "'int32'": "i4", "'float64'": "f8",
}  # fmt: skip
KIND_OF_DTYPE = {"f8": "float", "f4": "float", "i4": "int", "i8": "int", "u4": "int", "u8": "int", "b1": "bool", "i1": "int", "u1": "int"}


def scalar_dtype(t):
    """dtype that np.full / np.array would pick for a python scalar of this type"""
    return {"int": "i8", "float": "f8", "bool": "b1"}.get(t.name) if t.kind == "scalar" else None


# ---------------------------------------------------------------------------------------
# signatures


class Sig:
    def __init__(self, args, ret, text):
        self.args = args
        self.ret = ret
        self.text = text


class E2:
    def __init__(self, repo):
        self.repo = repo
        self.alias_cache = {}
        self.sigs = {}  # FunctionDef -> Sig
        self.jitted = set()  # FunctionDef that are compiled (with or without signature)
        self.jitclasses = {}  # ClassDef -> {field: T}
        self.attr_env = {}  # (mod, class) -> {attr: T}
        self._attr_busy = set()
        self.ret_cache = {}
        self.unsigned = []
        self._scan()

    # -- the repo's type vocabulary ------------------------------------------------------
    def type_expr(self, mod, e):
        """abstract type denoted by a numba type expression in module ``mod``"""
        m = self.repo.mods[mod]
        if isinstance(e, ast.Name):
            key = (mod, e.id)
            if key in self.alias_cache:
                return self.alias_cache[key]
            self.alias_cache[key] = TOP
            r = TOP
            if e.id in m.consts:
                r = self.type_expr(mod, m.consts[e.id])
            else:
                imp = m.imports.get(e.id)
                if imp and imp[0] == "sym" and imp[1] in self.repo.mods:
                    r = self.type_expr(imp[1], ast.Name(id=imp[2], ctx=ast.Load()))
                elif imp and imp[0] == "ext":
                    r = self._ext_type(imp[1])
            self.alias_cache[key] = r
            return r
        if isinstance(e, ast.Attribute):
            return self._ext_type(U(e))
        if isinstance(e, ast.IfExp):
            a, b = self.type_expr(mod, e.body), self.type_expr(mod, e.orelse)
            return b if a.kind == "top" else a
        if isinstance(e, ast.Call):
            fn = U(e.func)
            ft = self.type_expr(mod, e.func) if isinstance(e.func, (ast.Name, ast.Attribute)) else TOP
            if ft.kind == "ctor" and ft.name == "Array":
                dt = self.type_expr(mod, e.args[0])
                nd = e.args[1].value
                lay = e.args[2].value
                ro = False
                for k in e.keywords:
                    if k.arg == "readonly":
                        ro = bool(k.value.value)
                if dt.kind != "scalar":
                    return TOP
                return arr({"float": "f8", "int": "i4", "bool": "b1"}.get(dt.name), nd, lay == "C", not ro)
            if ft.kind == "ctor" and ft.name == "Tuple":
                return tup(self.type_expr(mod, x) for x in e.args[0].elts)
            if ft.kind == "ctor" and ft.name == "UniTuple":
                return tup([self.type_expr(mod, e.args[0])] * e.args[1].value)
            if fn.endswith("deferred_type"):
                return TOP
            return TOP
        return TOP

    def _ext_type(self, dotted):
        tail = dotted.split(".")[-1]
        if tail in ("float64",):
            return scalar("float")
        if tail in ("int32", "int64"):
            return scalar("int")
        if tail in ("bool_",):
            return scalar("bool")
        if tail == "void":
            return NONE
        if tail in ("Array", "Tuple", "UniTuple"):
            return T("ctor", name=tail)
        if dotted.endswith("class_type.instance_type"):
            return T("obj", name=dotted.split(".")[0])
        return TOP

    # -- inventory -------------------------------------------------------------------------
    def _scan(self):
        for mname, q, f in self.repo.all_funcs():
            m = self.repo.mods[mname]
            for d in f.decorator_list:
                txt = U(d)
                if not any(k in txt for k in ("numba_jit", "njit", "numba.jit", "jit(")):
                    continue
                self.jitted.add(f)
                if isinstance(d, ast.Call) and d.args and isinstance(d.args[0], ast.Call):
                    s = d.args[0]
                    ret = self.type_expr(mname, s.func)
                    args = [self.type_expr(mname, a) for a in s.args]
                    self.sigs[f] = Sig(args, ret, U(s))
                elif isinstance(d, ast.Call) and d.args and isinstance(d.args[0], ast.Constant) and isinstance(d.args[0].value, str):
                    sg = parse_string_sig(d.args[0].value)
                    if sg is None:
                        self.unsigned.append(f"{mname}.{q}: unparsed signature {txt}")
                    else:
                        self.sigs[f] = sg
                elif isinstance(d, ast.Call) and d.args:
                    self.unsigned.append(f"{mname}.{q}: unparsed signature {txt}")
                else:
                    self.unsigned.append(f"{mname}.{q}")
        for m in self.repo.mods.values():
            for c in m.classes.values():
                for d in c.decorator_list:
                    if "jitclass" in U(d) and isinstance(d, ast.Call) and d.args:
                        spec = d.args[0]
                        if isinstance(spec, ast.Name) and spec.id in m.consts:
                            spec = m.consts[spec.id]
                        fields = {}
                        if isinstance(spec, (ast.List, ast.Tuple)):
                            for el in spec.elts:
                                if isinstance(el, ast.Tuple) and len(el.elts) == 2 and isinstance(el.elts[0], ast.Constant):
                                    fields[el.elts[0].value] = self.type_expr(m.name, el.elts[1])
                        self.jitclasses[c] = fields
                        for q, f in m.funcs.items():
                            if q.startswith(c.name + "."):
                                self.jitted.add(f)
        # nested defs of jitted functions are compiled too
        for mname, q, f in self.repo.all_funcs():
            parts = q.split(".")
            for i in range(1, len(parts)):
                outer = self.repo.mods[mname].funcs.get(".".join(parts[:i]))
                if outer in self.jitted:
                    self.jitted.add(f)

    def python_level_sites(self):
        """(caller FunctionDef, Call, callee FunctionDef) for calls from interpreted code to
        signature-typed kernels and jitclass constructors"""
        out = []
        for mname, q, f in self.repo.all_funcs():
            if f in self.jitted:
                continue
            for n in own_nodes(f):
                if isinstance(n, ast.Call):
                    for tgt in self.repo.resolve_call(f, n):
                        if isinstance(tgt, ast.FunctionDef) and tgt in self.sigs:
                            out.append((f, n, tgt))
                        elif isinstance(tgt, ast.ClassDef) and tgt in self.jitclasses:
                            out.append((f, n, tgt))
        out.sort(key=lambda x: (x[0]._mod, x[1].lineno, x[1].col_offset))
        return out

    # -- class attribute environment ---------------------------------------------------------
    def attr_type(self, mod, cname, attr):
        key = (mod, cname, attr)
        if key in self._attr_busy:
            return TOP
        envkey = (mod, cname)
        env = self.attr_env.setdefault(envkey, {})
        if attr in env:
            return env[attr]
        self._attr_busy.add(key)
        t = None
        found = False
        for mm, cc in self.repo.mro(mod, cname):
            for q, f in self.repo.mods[mm].funcs.items():
                if not q.startswith(cc + ".") or q.count(".") != 1:
                    continue
                ctx = Ctx(self, f)
                for n in own_nodes(f):
                    if isinstance(n, ast.Assign):
                        for tg in n.targets:
                            for el, val in _pairs(tg, n.value):
                                if isinstance(el, ast.Attribute) and isinstance(el.value, ast.Name) and el.value.id == "self" and el.attr == attr:
                                    found = True
                                    vt = ctx.ty(val) if isinstance(val, ast.AST) else ctx.unpack(val)
                                    t = join(t, vt)
        # class-level constants
        if not found:
            for mm, cc in self.repo.mro(mod, cname):
                for s in self.repo.mods[mm].classes[cc].body:
                    if isinstance(s, ast.Assign) and any(isinstance(x, ast.Name) and x.id == attr for x in s.targets):
                        t = join(t, Ctx(self, None, mod=mm).ty(s.value))
                        found = True
        self._attr_busy.discard(key)
        env[attr] = t if (found and t is not None) else TOP
        return env[attr]

    # -- interprocedural return types -------------------------------------------------------
    def return_type(self, f, argtypes=None):
        if f in self.sigs:
            return self.sigs[f].ret
        key = (f, tuple(sorted((k, v.key()) for k, v in (argtypes or {}).items())))
        if key in self.ret_cache:
            return self.ret_cache[key]
        self.ret_cache[key] = TOP
        ctx = Ctx(self, f, param_types=argtypes or {})
        t = None
        any_ret = False
        for n in own_nodes(f):
            if isinstance(n, ast.Return):
                any_ret = True
                t = join(t, ctx.ty(n.value) if n.value is not None else NONE)
        r = t if any_ret and t is not None else (NONE if not any_ret else TOP)
        self.ret_cache[key] = r
        return r

    # -- the conformance check ---------------------------------------------------------------
    def callers_of(self, f):
        """package call sites (caller FunctionDef, Call) that resolve to ``f``"""
        if not hasattr(self, "_callers"):
            self._callers = {}
            for mname, q, g in self.repo.all_funcs():
                for n in own_nodes(g):
                    if isinstance(n, ast.Call):
                        for tgt in self.repo.resolve_call(g, n):
                            if isinstance(tgt, ast.ClassDef):
                                tgt = self.repo.class_init(tgt, callee_mod(self.repo, tgt))
                            if tgt is not None:
                                self._callers.setdefault(tgt, []).append((g, n))
        return self._callers.get(f, [])

    def contexts(self, f, depth=2):
        """parameter-type environments of ``f`` induced by its package call sites
        (arguments typed in the caller, defaults for omitted parameters)"""
        out = []
        for g, call in self.callers_of(f):
            if g is f:
                continue
            gctxs = [("", {})]
            if depth > 1:
                gctxs += [(lbl, pt) for lbl, pt in self.contexts(g, depth - 1)]
            for glabel, gpt in gctxs[:6]:
                gc = Ctx(self, g, param_types=gpt)
                is_method = f._cls is not None and not any(U(d) == "staticmethod" for d in f.decorator_list)
                bound = bind_args(call, f, method=is_method)
                if "*" in bound:
                    continue
                pt = {}
                for pname in all_params(f):
                    if pname in bound:
                        pt[pname] = gc.ty(bound[pname])
                    elif "**" not in bound:
                        from .base import param_default

                        d = param_default(f, pname)
                        if d is not None:
                            pt[pname] = Ctx(self, None, mod=f._mod).ty(d)
                label = f"{g._mod}.{g._qual}" + (f" <- {glabel}" if glabel else "")
                out.append((label, pt))
        return out

    def check_site(self, caller, call, callee, param_types=None):
        """yield (param, expected, actual, verdict, detail) for one call site; verdict in
        'ok' | 'mismatch' | 'unknown'"""
        ctx = Ctx(self, caller, param_types=param_types)
        out = []
        if isinstance(callee, ast.ClassDef):
            init = self.repo.mods[caller._mod if callee.name in self.repo.mods[caller._mod].classes else callee_mod(self.repo, callee)].funcs.get(
                f"{callee.name}.__init__"
            )
            fields = self.jitclasses[callee]
            if init is None:
                return out
            # map __init__ params to fields through direct assignments
            p2f = {}
            for n in own_nodes(init):
                if isinstance(n, ast.Assign):
                    for tg in n.targets:
                        for el, val in _pairs(tg, n.value):
                            if isinstance(el, ast.Attribute) and U(el.value) == "self" and isinstance(val, ast.Name) and el.attr in fields:
                                p2f[val.id] = el.attr
            bound = bind_args(call, init, method=True)
            for p, a in bound.items():
                if p in p2f:
                    out.append(self._cmp(f"{p} -> field {p2f[p]}", fields[p2f[p]], ctx.ty(a), a))
            return out
        sig = self.sigs[callee]
        names = all_params(callee)
        if any(isinstance(a, ast.Starred) for a in call.args) or any(k.arg is None for k in call.keywords):
            out.append(("*", None, None, "unknown", "star-args at kernel call"))
            return out
        bound = bind_args(call, callee, method=False)
        # staticmethods called through self: bind_args with method=False is right (no self param)
        n_given = len(call.args) + len(call.keywords)
        if n_given != len(sig.args) or len(names) != len(sig.args):
            out.append(("<arity>", f"{len(sig.args)} arguments", f"{n_given} arguments", "mismatch", f"signature {sig.text}"))
            return out
        for i, p in enumerate(names):
            a = bound.get(p)
            if a is None:
                out.append((p, repr(sig.args[i]), "missing", "mismatch", "argument not supplied"))
                continue
            out.append(self._cmp(p, sig.args[i], ctx.ty(a), a))
        return out

    def _cmp(self, p, exp, act, aexpr):
        d = compatible(exp, act)
        return (p, repr(exp), repr(act), d[0], d[1] + f" (argument `{U(aexpr)}`)")


_STR_SCALARS = {
    "f8": "float", "float64": "float", "f4": "float", "float32": "float", "i4": "int", "int32": "int", "i8": "int",
    "int64": "int", "u8": "int", "uint64": "int", "u4": "int", "uint32": "int", "b1": "bool", "boolean": "bool", "bool_": "bool",
}  # fmt: skip
_STR_DTYPES = {
    "f8": "f8", "float64": "f8", "i4": "i4", "int32": "i4", "i8": "i8", "int64": "i8", "u8": "u8", "uint64": "u8",
    "u4": "u4", "uint32": "u4", "b1": "b1", "boolean": "b1",
}  # fmt: skip


def _split_top(s):
    out, depth, cur = [], 0, ""
    for ch in s:
        if ch in "([":
            depth += 1
        elif ch in ")]":
            depth -= 1
        if ch == "," and depth == 0:
            out.append(cur.strip())
            cur = ""
        else:
            cur += ch
    if cur.strip():
        out.append(cur.strip())
    return out


def parse_string_type(s):
    import re

    s = s.strip()
    m = re.fullmatch(r"(\w+)\[([:,\s]*)\]", s)
    if m and m.group(1) in _STR_DTYPES:
        # string-form arrays have layout 'A' (any) and are writable
        return arr(_STR_DTYPES[m.group(1)], m.group(2).count(":"), None, None)
    if s in _STR_SCALARS:
        return scalar(_STR_SCALARS[s])
    m = re.fullmatch(r"UniTuple\((.+),\s*(\d+)\)", s)
    if m:
        t = parse_string_type(m.group(1))
        return tup([t] * int(m.group(2))) if t else None
    if s == "void":
        return NONE
    return None


def parse_string_sig(text):
    """'f8(f8, f8)' / 'float64[:](uint64)' / 'UniTuple(f8, 2)(f8, f8, f8)'"""
    text = text.strip()
    if not text.endswith(")"):
        return None
    depth = 0
    for i in range(len(text) - 1, -1, -1):
        if text[i] == ")":
            depth += 1
        elif text[i] == "(":
            depth -= 1
            if depth == 0:
                break
    ret = parse_string_type(text[:i])
    args = [parse_string_type(a) for a in _split_top(text[i + 1 : -1])]
    if ret is None or any(a is None for a in args):
        return None
    return Sig(args, ret, text)


def callee_mod(repo, cdef):
    for m in repo.mods.values():
        if m.classes.get(cdef.name) is cdef:
            return m.name
    raise AnalysisError("class module not found")


def compatible(exp, act):
    """('ok'|'mismatch'|'unknown', why) following the dispatcher rules probed at design time"""
    if act.kind == "top" or exp.kind == "top":
        return ("unknown", "type not inferred")
    if exp.kind == "scalar":
        if act.kind == "scalar":
            return ("ok", "scalars convert")
        if act.kind in ("none", "arr", "list", "tuple", "str", "obj"):
            return ("mismatch", f"{act!r} cannot be passed for a scalar")
        return ("unknown", "")
    if exp.kind == "arr":
        if act.kind in ("scalar", "none", "list", "tuple", "str", "obj"):
            return ("mismatch", f"{act!r} cannot be passed for an array")
        if act.kind != "arr":
            return ("unknown", "")
        unknown = False
        if act.dtype is None:
            unknown = True
        elif act.dtype != exp.dtype:
            return ("mismatch", f"dtype {act.dtype} where {exp.dtype} is required")
        if act.ndim is None:
            unknown = True
        elif act.ndim != exp.ndim:
            return ("mismatch", f"{act.ndim}-d array where {exp.ndim}-d is required")
        if exp.contig is True and act.contig is False:
            return ("mismatch", "non-contiguous view where C layout is required")
        if exp.contig is True and act.contig is None:
            unknown = True
        if exp.writable and act.writable is False:
            return ("mismatch", "read-only array where a writable one is required")
        if exp.writable and act.writable is None:
            unknown = True
        return ("unknown", "partially inferred") if unknown else ("ok", "")
    if exp.kind == "obj":
        if act.kind == "obj":
            return ("ok", "") if act.name == exp.name else ("mismatch", f"{act!r} for {exp!r}")
        if act.kind in ("arr", "scalar", "none", "list", "tuple"):
            return ("mismatch", f"{act!r} for {exp!r}")
        return ("unknown", "")
    return ("unknown", "")


def _pairs(target, value):
    """(target element, value element or ('unpack', value, i)) pairs of an assignment"""
    if isinstance(target, (ast.Tuple, ast.List)):
        if isinstance(value, (ast.Tuple, ast.List)) and len(value.elts) == len(target.elts):
            for t, v in zip(target.elts, value.elts):
                yield from _pairs(t, v)
        else:
            for i, t in enumerate(target.elts):
                yield t, ("unpack", value, i)
    else:
        yield target, value


# ---------------------------------------------------------------------------------------
# expression typing


class Ctx:
    def __init__(self, e2, f, param_types=None, mod=None):
        self.e2 = e2
        self.repo = e2.repo
        self.f = f
        self.mod = mod or (f._mod if f is not None else None)
        self.defs = Defs(f) if f is not None else None
        self.param_types = param_types or {}
        self.busy = set()

    # tuple-unpack element
    def unpack(self, v):
        _, src, i = v
        st = self.ty(src) if isinstance(src, ast.AST) else TOP
        if st.kind == "tuple" and isinstance(i, int) and i < len(st.elts):
            return st.elts[i]
        if st.kind == "arr" and st.ndim is not None and st.ndim >= 1:
            # iterating the first axis: rows are views
            if st.ndim == 1:
                return scalar(KIND_OF_DTYPE.get(st.dtype))
            c = st.contig if st.contig is not None else None
            return arr(st.dtype, st.ndim - 1, c, st.writable)
        return TOP

    def is_ts(self, e):
        txt = U(e)
        if txt in TS_NAMES:
            return True
        if isinstance(e, ast.Name) and self.defs:
            vs = self.defs.values(e.id)
            if len(vs) == 1 and isinstance(vs[0], ast.AST) and U(vs[0]) in TS_NAMES:
                return True
        return False

    def name_type(self, name):
        if name in ("True", "False"):
            return scalar("bool")
        if name in self.busy:
            return TOP
        if self.defs and name in self.defs.defs:
            self.busy.add(name)
            t = None
            for v in self.defs.defs[name]:
                if isinstance(v, ast.AST):
                    t = join(t, self.ty(v))
                elif v[0] == "param":
                    t = join(t, self.param_types.get(name, TOP))
                elif v[0] == "unpack":
                    t = join(t, self.unpack(v))
                elif v[0] == "aug":
                    continue  # in-place update keeps the type
                elif v[0] == "iter":
                    it = self.ty(v[1])
                    if it.kind == "arr" and it.ndim == 1:
                        t = join(t, scalar(KIND_OF_DTYPE.get(it.dtype)))
                    else:
                        t = join(t, TOP)
                else:
                    t = join(t, TOP)
            self.busy.discard(name)
            return t if t is not None else TOP
        m = self.repo.mods[self.mod]
        if name in m.consts:
            return Ctx(self.e2, None, mod=self.mod).ty(m.consts[name])
        imp = m.imports.get(name)
        if imp and imp[0] == "sym" and imp[1] in self.repo.mods and imp[2] in self.repo.mods[imp[1]].consts:
            return Ctx(self.e2, None, mod=imp[1]).ty(self.repo.mods[imp[1]].consts[imp[2]])
        if name in ("inf", "nan"):
            return scalar("float")
        return TOP

    def dtype_arg(self, call, pos=None):
        for k in call.keywords:
            if k.arg == "dtype":
                return NP_DTYPES.get(U(k.value), "?")
        if pos is not None and len(call.args) > pos:
            return NP_DTYPES.get(U(call.args[pos]), "?")
        return None

    def shape_ndim(self, e):
        if isinstance(e, ast.Tuple):
            return len(e.elts)
        t = self.ty(e)
        if t.kind == "scalar":
            return 1
        if isinstance(e, ast.Attribute) and e.attr == "shape":
            b = self.ty(e.value)
            return b.ndim if b.kind == "arr" else None
        return None

    def ty(self, e):
        try:
            return self._ty(e)
        except RecursionError:
            return TOP

    def _ty(self, e):
        if e is None:
            return NONE
        if isinstance(e, ast.Constant):
            v = e.value
            if v is None:
                return NONE
            if isinstance(v, bool):
                return scalar("bool")
            if isinstance(v, int):
                return scalar("int")
            if isinstance(v, float):
                return scalar("float")
            if isinstance(v, str):
                return T("str")
            return TOP
        if isinstance(e, ast.Name):
            return self.name_type(e.id)
        if isinstance(e, (ast.List, ast.ListComp, ast.Set, ast.Dict, ast.GeneratorExp)):
            return T("list")
        if isinstance(e, ast.Tuple):
            return tup(self.ty(x) for x in e.elts)
        if isinstance(e, ast.IfExp):
            return join(self.ty(e.body), self.ty(e.orelse))
        if isinstance(e, ast.Attribute):
            return self.attr(e)
        if isinstance(e, ast.Subscript):
            return self.subscript(e)
        if isinstance(e, ast.Compare):
            ts = [self.ty(e.left)] + [self.ty(c) for c in e.comparators]
            if any(isinstance(o, (ast.Is, ast.IsNot, ast.In, ast.NotIn)) for o in e.ops):
                return scalar("bool")
            return self.elementwise(ts, "b1")
        if isinstance(e, ast.BoolOp):
            return scalar("bool")
        if isinstance(e, ast.UnaryOp):
            t = self.ty(e.operand)
            if isinstance(e.op, ast.Not):
                return scalar("bool")
            if t.kind == "arr":
                return self.elementwise([t], t.dtype)
            return t
        if isinstance(e, ast.BinOp):
            a, b = self.ty(e.left), self.ty(e.right)
            if a.kind == "scalar" and b.kind == "scalar":
                if isinstance(e.op, ast.Div):
                    return scalar("float")
                k = {a.name, b.name}
                return scalar("float" if "float" in k else (None if None in k else "int"))
            dts = []
            for t in (a, b):
                if t.kind == "arr":
                    dts.append(t.dtype)
                elif t.kind == "scalar":
                    dts.append({"float": "f8", "int": "pyint", "bool": "pybool"}.get(t.name))
                else:
                    return TOP
            if isinstance(e.op, ast.Div):
                dt = "f8"
            elif None in dts:
                dt = None
            elif "f8" in dts:
                dt = "f8"
            else:
                arrs = [d for d in dts if d not in ("pyint", "pybool")]
                dt = arrs[0] if arrs and all(d == arrs[0] for d in arrs) else None
            return self.elementwise([a, b], dt)
        if isinstance(e, ast.Call):
            return self.call(e)
        if isinstance(e, ast.JoinedStr):
            return T("str")
        if isinstance(e, ast.Starred):
            return TOP
        return TOP

    def elementwise(self, ts, dtype):
        arrs = [t for t in ts if t.kind == "arr"]
        if any(t.kind not in ("arr", "scalar") for t in ts):
            return TOP
        if not arrs:
            return scalar("bool" if dtype == "b1" else None)
        nds = [t.ndim for t in arrs]
        nd = None if None in nds else max(nds)
        if nd is not None and nd <= 1:
            contig = True
        else:
            contig = True if all(t.contig is True for t in arrs) else None
        return arr(dtype, nd, contig, True)

    def attr(self, e):
        txt = U(e)
        v = e.value
        if txt in ("np.inf", "np.nan", "math.inf", "np.pi"):
            return scalar("float")
        if txt in ("np.newaxis",):
            return NONE
        if txt in ("tskit.NULL", "tskit.NODE_IS_SAMPLE", "tsdate.NODE_SPLIT_BY_PREPROCESS"):
            return scalar("int")
        if txt == "tskit.UNKNOWN_TIME":
            return scalar("float")
        if self.is_ts(v):
            if e.attr in TS_ARRAYS:
                dt, nd = TS_ARRAYS[e.attr]
                return arr(dt, nd, True, False)
            if e.attr in TS_SCALARS:
                return scalar(TS_SCALARS[e.attr])
            return TOP
        if isinstance(v, ast.Name) and v.id == "self" and self.f is not None and self.f._cls:
            return self.e2.attr_type(self.mod, self.f._cls, e.attr)
        # module constant  e.g. prior.DEFAULT_X
        if isinstance(v, ast.Name):
            imp = self.repo.mods[self.mod].imports.get(v.id)
            if imp and imp[0] == "mod" and imp[1] in self.repo.mods and e.attr in self.repo.mods[imp[1]].consts:
                return Ctx(self.e2, None, mod=imp[1]).ty(self.repo.mods[imp[1]].consts[e.attr])
        bt = self.ty(v)
        if bt.kind == "arr":
            if e.attr in ("size", "ndim", "itemsize"):
                return scalar("int")
            if e.attr == "shape":
                return tup([scalar("int")] * bt.ndim) if bt.ndim is not None else TOP
            if e.attr == "T":
                if bt.ndim is not None and bt.ndim <= 1:
                    return bt
                return arr(bt.dtype, bt.ndim, False, bt.writable)
            if e.attr == "dtype":
                return T("dtype", name=bt.dtype)
            if e.attr in ("real",):
                return bt
        if bt.kind == "obj" and bt.name:
            for c, fields in self.e2.jitclasses.items():
                if c.name == bt.name and e.attr in fields:
                    return fields[e.attr]
        return TOP

    def subscript(self, e):
        bt = self.ty(e.value)
        idx = e.slice
        if bt.kind == "tuple":
            if isinstance(idx, ast.Constant) and isinstance(idx.value, int) and -len(bt.elts) <= idx.value < len(bt.elts):
                return bt.elts[idx.value]
            return TOP
        if bt.kind != "arr" or bt.ndim is None:
            return TOP
        elts = list(idx.elts) if isinstance(idx, ast.Tuple) else [idx]
        kinds = []
        for x in elts:
            if isinstance(x, ast.Slice):
                full = x.lower is None and x.upper is None and x.step is None
                kinds.append("full" if full else ("range" if x.step is None else "step"))
            elif isinstance(x, ast.Constant) and x.value is Ellipsis:
                kinds.append("ellipsis")
            else:
                t = self.ty(x)
                if t.kind == "none":
                    kinds.append("newaxis")
                elif t.kind == "scalar":
                    kinds.append("int")
                elif t.kind in ("arr", "list"):
                    kinds.append("adv")
                else:
                    kinds.append("?")
        if "?" in kinds:
            # index of unknown type: a scalar index or an index array -- result shape unknown
            return arr(bt.dtype, None, None, None)
        if "ellipsis" in kinds:
            i = kinds.index("ellipsis")
            consumed = sum(k in ("int", "adv", "full", "range", "step") for k in kinds)
            kinds[i : i + 1] = ["full"] * max(0, bt.ndim - consumed)
        n_int = kinds.count("int")
        n_adv = kinds.count("adv")
        n_new = kinds.count("newaxis")
        consumed = sum(k in ("int", "adv", "full", "range", "step") for k in kinds)
        if consumed > bt.ndim:
            return TOP
        nd = bt.ndim - n_int - n_adv + (1 if n_adv else 0) + n_new
        if n_adv:
            # boolean-mask / fancy indexing copies
            if n_adv == 1 and nd == 0:
                nd = None
            return arr(bt.dtype, nd, True if nd == 1 else None, True)
        if nd == 0:
            return scalar(KIND_OF_DTYPE.get(bt.dtype))
        # basic indexing -> view
        real = [k for k in kinds if k != "newaxis"] + ["full"] * (bt.ndim - consumed)
        contig = bt.contig
        if bt.contig is True:
            # leading ints, then at most one range slice, then full slices
            j = 0
            while j < len(real) and real[j] == "int":
                j += 1
            rest = real[j:]
            if "step" in rest:
                contig = False
            elif any(k == "int" for k in rest):
                contig = False  # e.g. a[:, 0]
            elif rest and any(k == "range" for k in rest[1:]):
                contig = False
            else:
                contig = True
        return arr(bt.dtype, nd, contig, bt.writable)

    def call(self, e):
        fn = U(e.func)
        a = e.args
        # numpy constructors
        if fn in ("np.zeros", "np.ones", "np.empty"):
            dt = self.dtype_arg(e, 1)
            nd = self.shape_ndim(a[0]) if a else None
            return arr("f8" if dt is None else (None if dt == "?" else dt), nd, True, True)
        if fn == "np.full":
            dt = self.dtype_arg(e, 2)
            nd = self.shape_ndim(a[0]) if a else None
            if dt is None:
                dt = scalar_dtype(self.ty(a[1])) if len(a) > 1 else None
            elif dt == "?":
                dt = None
            return arr(dt, nd, True, True)
        if fn in ("np.zeros_like", "np.ones_like", "np.full_like", "np.empty_like"):
            t = self.ty(a[0])
            return arr(t.dtype, t.ndim, True, True) if t.kind == "arr" else TOP
        if fn == "np.arange":
            dt = self.dtype_arg(e)
            if dt is None:
                ts = [self.ty(x) for x in a]
                dt = "f8" if any(t.kind == "scalar" and t.name == "float" for t in ts) else ("i8" if all(t.kind == "scalar" and t.name == "int" for t in ts) else None)
            elif dt == "?":
                dt = None
            return arr(dt, 1, True, True)
        if fn == "np.linspace":
            return arr("f8", 1, True, True)
        if fn in ("np.array", "np.asarray"):
            dt = self.dtype_arg(e, 1)
            dt = None if dt in (None, "?") else dt
            t = self.ty(a[0]) if a else TOP
            if t.kind == "arr":
                return arr(dt or t.dtype, t.ndim, True if fn == "np.array" else t.contig, True if fn == "np.array" else t.writable)
            if t.kind == "list":
                return arr(dt, None, True, True)
            return arr(dt, None, True, True)
        if fn in ("np.ascontiguousarray", "np.copy"):
            t = self.ty(a[0])
            return arr(t.dtype, max(t.ndim, 1) if t.ndim is not None else None, True, True) if t.kind == "arr" else TOP
        if fn in ("np.append", "np.concatenate", "np.hstack"):
            if fn == "np.append":
                ts = [self.ty(x) for x in a[:2]]
            else:
                ts = [self.ty(x) for x in a[0].elts] if a and isinstance(a[0], (ast.Tuple, ast.List)) else [TOP]
            dts = set()
            for t in ts:
                if t.kind == "arr":
                    dts.add(t.dtype)
                elif t.kind == "scalar":
                    dts.add({"float": "f8", "int": "pyint", "bool": "pybool"}.get(t.name))
                else:
                    dts.add(None)
            if None in dts:
                dt = None
            elif "f8" in dts:
                dt = "f8"
            elif len(dts - {"pyint"}) == 1 and (dts - {"pyint"}) <= {"i4", "i8"}:
                # numpy 2 value-independent promotion: python int adopts the array dtype
                dt = next(iter(dts - {"pyint"}))
            elif len(dts) == 1:
                dt = next(iter(dts))
            else:
                dt = None
            axis = any(k.arg == "axis" for k in e.keywords)
            nds = [t.ndim for t in ts if t.kind == "arr"]
            nd = 1 if (fn == "np.append" and not axis) else (nds[0] if nds and None not in nds and len(set(nds)) == 1 else None)
            return arr(dt, nd, True, True)
        if fn == "np.column_stack":
            ts = [self.ty(x) for x in a[0].elts] if a and isinstance(a[0], (ast.Tuple, ast.List)) else [TOP]
            dts = {t.dtype if t.kind == "arr" else None for t in ts}
            return arr(next(iter(dts)) if len(dts) == 1 else None, 2, True, True)
        if fn == "np.flip":
            t = self.ty(a[0])
            return arr(t.dtype, t.ndim, False, t.writable) if t.kind == "arr" else TOP
        if fn in ("np.logical_and", "np.logical_or", "np.logical_not", "np.isnan", "np.isfinite", "np.isinf", "np.isin", "np.isclose"):
            return self.elementwise([self.ty(x) for x in a[: (1 if fn in ("np.isnan", "np.isfinite", "np.isinf", "np.logical_not") else 2)]], "b1")
        if fn in ("np.bitwise_and", "np.bitwise_or"):
            ts = [self.ty(x) for x in a[:2]]
            arrs = [t for t in ts if t.kind == "arr"]
            return self.elementwise(ts, arrs[0].dtype if len(arrs) == 1 else None)
        if fn in ("np.cumsum", "np.diff", "np.sort", "np.unique", "np.abs", "np.sqrt", "np.exp", "np.log", "np.minimum", "np.maximum", "np.where", "np.squeeze"):
            ts = [self.ty(x) for x in a]
            if fn == "np.unique" and any(k.arg and k.arg.startswith("return_") for k in e.keywords):
                return TOP
            if fn == "np.where":
                if len(a) == 1:
                    return TOP
                vals = ts[1:3]
                dts = {t.dtype for t in vals if t.kind == "arr"}
                return self.elementwise(ts[:3], next(iter(dts)) if len(dts) == 1 and all(t.kind == "arr" for t in vals) else None)
            if fn in ("np.sqrt", "np.exp", "np.log"):
                return self.elementwise(ts[:1], "f8")
            if fn in ("np.minimum", "np.maximum"):
                dts = {t.dtype for t in ts[:2] if t.kind == "arr"}
                return self.elementwise(ts[:2], next(iter(dts)) if len(dts) == 1 and all(t.kind == "arr" for t in ts[:2]) else None)
            t = ts[0] if ts else TOP
            if t.kind != "arr":
                return TOP
            if fn == "np.squeeze":
                return arr(t.dtype, None, None, t.writable)
            nd = t.ndim if any(k.arg == "axis" for k in e.keywords) else (1 if fn in ("np.cumsum", "np.unique") else t.ndim)
            return arr(t.dtype, nd, True if nd == 1 else None, True)
        if fn in ("np.argsort", "np.flatnonzero", "np.searchsorted", "np.argmax", "np.argmin"):
            if fn in ("np.argmax", "np.argmin") and not any(k.arg == "axis" for k in e.keywords):
                return scalar("int")
            return arr("i8", 1 if fn != "np.searchsorted" else None, True, True)
        if fn in ("np.sum", "np.mean", "np.max", "np.min", "np.all", "np.any", "np.prod", "len", "int", "float", "bool", "abs", "min", "max", "sum", "np.float64", "np.int32", "np.int64", "np.isscalar", "float64"):
            if any(k.arg == "axis" for k in e.keywords):
                return TOP
            if fn in ("np.all", "np.any", "bool", "np.isscalar"):
                return scalar("bool")
            if fn in ("len", "int", "np.int32", "np.int64"):
                return scalar("int")
            if fn in ("float", "np.float64", "np.mean"):
                return scalar("float")
            return scalar(None)
        if fn in ("list", "sorted", "set", "dict"):
            return T("list")
        if fn == "tuple":
            return TOP
        # methods on arrays / tree sequences
        if isinstance(e.func, ast.Attribute):
            recv, meth = e.func.value, e.func.attr
            if self.is_ts(recv):
                if meth == "samples":
                    return arr("i4", 1, True, True)
                if meth == "dump_tables":
                    return T("tables")
                return TOP
            rt = self.ty(recv)
            if rt.kind == "arr":
                if meth == "copy":
                    return arr(rt.dtype, rt.ndim, True, True)
                if meth == "astype":
                    dt = NP_DTYPES.get(U(a[0])) if a else None
                    return arr(dt, rt.ndim, True if (rt.ndim is not None and rt.ndim <= 1) or rt.contig else None, True)
                if meth in ("sum", "mean", "max", "min", "all", "any", "item", "prod"):
                    return scalar(None) if not any(k.arg == "axis" for k in e.keywords) and not a else TOP
                if meth in ("squeeze", "reshape", "ravel", "flatten"):
                    return arr(rt.dtype, 1 if meth in ("ravel", "flatten") else None, True if meth == "flatten" else None, True if meth == "flatten" else rt.writable)
                if meth in ("cumsum",):
                    return arr(rt.dtype, 1, True, True)
                if meth in ("argsort",):
                    return arr("i8", rt.ndim, True, True)
                if meth == "view":
                    return arr(None, rt.ndim, rt.contig, rt.writable)
                return TOP
        # package callees
        tg = self.repo.resolve_call(self.f, e) if self.f is not None else []
        if len(tg) == 1:
            t = tg[0]
            if isinstance(t, ast.FunctionDef):
                if t in self.e2.sigs:
                    return self.e2.sigs[t].ret
                is_method = t._cls is not None and not any(U(d) == "staticmethod" for d in t.decorator_list)
                bound = bind_args(e, t, method=is_method)
                at = {p: self.ty(x) for p, x in bound.items() if p not in ("*", "**")}
                return self.e2.return_type(t, at)
            if isinstance(t, ast.ClassDef):
                return T("obj", name=t.name)
        elif len(tg) > 1:
            r = None
            for t in tg:
                if isinstance(t, ast.FunctionDef):
                    r = join(r, self.e2.return_type(t))
            return r or TOP
        return TOP
