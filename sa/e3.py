"""
E3 -- dimension (units-of-measure) inference by abstract interpretation.

Lattice: Dim = rational exponents of (T = time, L = genome length); ZERO (0, +-inf, nan:
any dimension); IMPURE (log of a dimensioned quantity: absorbing, may only reach
diagnostic sinks); TOP (unknown: every operation on it is TOP, counted, never reported).
Shapes: a Dim stands for a scalar or an array of one dimension; Rec = array whose last axis
is a fixed-width record with one dimension per column (gamma natural parameters (1, 1/T),
edge statistics (1, L)); Tup = python tuple; Obj = instance with an attribute
environment; Const = python constant with known value (used to fold bool/None/int flags).

The interpretation is flow-sensitive inside a function (environments forked at branches,
joined afterwards; loop bodies run twice), context-sensitive across calls (a callee is
re-analysed per distinct argument tuple, memoised) and resolves callees through the
program model (module functions, methods through the MRO, closures, function aliases,
``**kwargs`` forwarding).

An *obligation* is recorded for every operation that constrains dimensions (add/sub,
comparison, min/max/where/append/searchsorted, dimensionless-argument functions, stores
into typed containers).  Outcome: ok / clash (both sides known and different) / top.
"""

import ast
from fractions import Fraction as F

from .base import U


class Dim:
    __slots__ = ("e",)

    def __init__(self, t=0, l=0):
        self.e = (F(t), F(l))

    def __eq__(self, o):
        return isinstance(o, Dim) and self.e == o.e

    def __hash__(self):
        return hash(self.e)

    def mul(self, o):
        return Dim(self.e[0] + o.e[0], self.e[1] + o.e[1])

    def div(self, o):
        return Dim(self.e[0] - o.e[0], self.e[1] - o.e[1])

    def pow(self, k):
        return Dim(self.e[0] * k, self.e[1] * k)

    def isone(self):
        return self.e == (0, 0)

    def __repr__(self):
        if self.isone():
            return "1"
        return "*".join(f"{n}^{x}" if x != 1 else n for n, x in zip("TL", self.e) if x)


ONE = Dim()
T = Dim(1, 0)
L = Dim(0, 1)
RATE = Dim(-1, 0)  # 1/T
MU = Dim(-1, -1)  # mutation rate per unit time per unit length


class _Tok:
    def __init__(self, n):
        self.n = n

    def __repr__(self):
        return self.n


ZERO, TOP, IMPURE = _Tok("ZERO"), _Tok("TOP"), _Tok("IMPURE")


class Tup:
    def __init__(self, items):
        self.items = list(items)

    def __repr__(self):
        return "(" + ", ".join(map(repr, self.items)) + ")"


class Rec:
    def __init__(self, items, lead=None):
        self.items = list(items)
        self.lead = lead

    def __repr__(self):
        return f"Rec{self.lead}[" + ", ".join(map(repr, self.items)) + "]"


class Obj:
    def __init__(self, cls=None, attrs=None, kind="obj"):
        self.cls = cls  # (mod, classname) or None
        self.attrs = attrs if attrs is not None else {}
        self.kind = kind

    def __repr__(self):
        return f"Obj<{self.cls[1] if self.cls else self.kind}@{id(self) % 10000}>"


class Const:
    """python constant with known value (bool / int / str / None)"""

    def __init__(self, v):
        self.v = v

    def __repr__(self):
        return f"Const({self.v!r})"


class Fn:
    """reference to a package function / bound method / closure / class"""

    def __init__(self, kind, target, selfobj=None, env=None):
        self.kind, self.target, self.selfobj, self.env = kind, target, selfobj, env

    def __repr__(self):
        return f"Fn({self.kind}:{getattr(self.target, 'name', self.target)})"


class StarArg:
    """`*array` at a call: an unknown number of positional arguments of one dimension"""

    def __init__(self, v):
        self.v = v

    def __repr__(self):
        return f"*{self.v!r}"


class KW:
    """a **kwargs mapping"""

    def __init__(self, d):
        self.d = dict(d)

    def __repr__(self):
        return "KW(" + ", ".join(f"{k}={v!r}" for k, v in sorted(self.d.items())) + ")"


def new_dict(factory=None):
    return Obj(None, {"__val__": None, "__key__": None, "__keys__": {}, "__factory__": factory}, kind="dict")


def strip(v):
    """value as seen by arithmetic: constants become dimensionless numbers"""
    if isinstance(v, Const):
        if v.v is None or isinstance(v.v, str):
            return TOP
        if v.v == 0 and not isinstance(v.v, bool):
            return ZERO
        return ONE
    if isinstance(v, (Fn, KW)):
        return TOP
    if isinstance(v, StarArg):
        return strip(v.v)
    return v


def sig(v, depth=0):
    """structural signature of an abstract value (memoisation key): objects by identity plus
    the current state of their attributes, so in-place effects invalidate the memo"""
    if isinstance(v, (list, tuple)):
        return "[" + ",".join(sig(x, depth) for x in v) + "]"
    if isinstance(v, Obj):
        if depth > 1:
            return f"O{id(v)}"
        return f"O{id(v)}{{" + ",".join(f"{k}:{sig(x, depth + 1)}" for k, x in sorted(v.attrs.items()) if not callable(x)) + "}"
    if isinstance(v, (Tup, Rec)):
        return type(v).__name__ + str(getattr(v, "lead", "")) + "[" + ",".join(sig(x, depth) for x in v.items) + "]"
    if isinstance(v, KW):
        return "KW{" + ",".join(f"{k}:{sig(x, depth)}" for k, x in sorted(v.d.items())) + "}"
    if isinstance(v, Fn):
        return f"F{id(v.target) if not isinstance(v.target, (list, tuple)) else sig([x for x in v.target if not callable(x)], depth)}"
    return repr(v)


class Report:
    def __init__(self):
        self.obs = []  # (fn, lineno, what, a, b, text, verdict)
        self.n_ok = 0
        self.n_top = 0
        self.calls = 0
        self.funcs = set()
        self.unmodelled = {}
        self.trace = None  # set to {} to record where TOP arises
        self.ok_by_fn = {}
        self.top_by_fn = {}
        self.cur = "?"

    def ok(self):
        self.n_ok += 1
        self.ok_by_fn[self.cur] = self.ok_by_fn.get(self.cur, 0) + 1

    def top(self):
        self.n_top += 1
        self.top_by_fn[self.cur] = self.top_by_fn.get(self.cur, 0) + 1

    def clash(self, fn, node, what, a, b):
        self.obs.append((fn, getattr(node, "lineno", 0), what, repr(a), repr(b), U(node)[:90] if isinstance(node, ast.AST) else str(node)))


DIMLESS_ARG = {
    "exp", "np.exp", "lgamma", "math.lgamma", "erf", "np.tan", "np.sin", "np.cos", "gammainc_inv", "hypergeo._gammainc_inv",
    "scipy.special.loggamma", "scipy.special.gamma", "scipy.special.gammainc", "gamma_cdf", "scipy.special.digamma",
    "scipy.special.betaln", "scipy.special.gammaln", "np.expm1", "np.log1p", "math.exp", "np.power",
}  # fmt: skip
NP_SAME = {
    "np.sum", "np.mean", "np.cumsum", "np.diff", "np.sort", "np.abs", "abs", "np.max", "np.min", "np.flip", "np.copy",
    "np.ascontiguousarray", "np.unique", "float", "np.nanmax", "np.nanmin", "np.squeeze", "np.asarray", "np.array", "np.median",
    "sorted", "np.float64", "np.amax", "np.amin", "np.negative", "sum", "np.nansum", "np.ravel", "list", "np.atleast_1d", "reversed",
    "np.add.reduceat", "tuple",
}  # fmt: skip
NP_ONE = {
    "np.argsort", "np.argmax", "np.argmin", "np.isfinite", "np.isnan", "np.isinf", "np.all", "np.any", "np.flatnonzero",
    "np.arange", "np.logical_and", "np.logical_or", "np.logical_not", "len", "range", "int", "np.linspace", "set", "bool",
    "np.lexsort", "np.isin", "np.ndim", "hasattr", "np.bincount0", "np.count_nonzero", "np.sign", "np.int32", "np.int64",
    "np.isscalar", "type", "id", "str", "np.errstate", "np.bitwise_and", "np.nonzero", "np.finfo", "np.ones_like",
    "np.zeros_like0", "np.shape", "np.size", "np.random.default_rng",
}  # fmt: skip


class Interp:
    def __init__(self, repo, report, ts_table=None, folds=None):
        self.repo = repo
        self.rep = report
        self.memo = {}
        self.stack = []
        self.fn = "?"
        self.depth = 0
        self.ts_table = ts_table or {}
        self.suppress = 0  # >0 while evaluating diagnostic-only contexts
        self.missing_attr = 0
        self.objects = []  # (class name, instance) in creation order
        self.returns = {}  # "mod.qual" -> list of abstract return values (one per analysed context)
        self.overrides = {}  # (mod, qual) -> handler(interp, args, kwargs, fdef) for bindings to compiled code

    # ------------------------------------------------------------------ lattice
    def unify(self, a, b, node, what):
        a, b = strip(a), strip(b)
        if a is TOP or b is TOP or isinstance(a, Obj) or isinstance(b, Obj):
            self.rep.top()
            if self.rep.trace is not None:
                k = (self.fn, getattr(node, "lineno", 0), U(node)[:70] if isinstance(node, ast.AST) else "")
                self.rep.trace[k] = self.rep.trace.get(k, 0) + 1
            return TOP
        if a is IMPURE or b is IMPURE:
            return IMPURE
        if a is ZERO:
            return b
        if b is ZERO:
            return a
        if isinstance(a, (Tup, Rec)) and isinstance(b, (Tup, Rec)):
            if len(a.items) != len(b.items):
                self.rep.top()
                return TOP
            items = [self.unify(x, y, node, what) for x, y in zip(a.items, b.items)]
            if isinstance(a, Rec) or isinstance(b, Rec):
                return Rec(items, a.lead if isinstance(a, Rec) else b.lead)
            return Tup(items)
        if isinstance(a, (Tup, Rec)) or isinstance(b, (Tup, Rec)):
            t, x = (a, b) if isinstance(a, (Tup, Rec)) else (b, a)
            items = [self.unify(i, x, node, what) for i in t.items]
            return Rec(items, t.lead) if isinstance(t, Rec) else Tup(items)
        if a == b:
            self.rep.ok()
            return a
        if not self.suppress:
            self.rep.clash(self.fn, node, what, a, b)
        return TOP

    def mul(self, a, b, inv=False):
        a, b = strip(a), strip(b)
        if a is TOP or b is TOP or isinstance(a, Obj) or isinstance(b, Obj):
            return TOP
        if a is IMPURE or b is IMPURE:
            return IMPURE
        if isinstance(a, (Tup, Rec)) and isinstance(b, (Tup, Rec)):
            if len(a.items) != len(b.items):
                return TOP
            items = [self.mul(x, y, inv) for x, y in zip(a.items, b.items)]
            return Rec(items, a.lead if isinstance(a, Rec) else getattr(b, "lead", None))
        if isinstance(a, (Tup, Rec)):
            items = [self.mul(x, b, inv) for x in a.items]
            return Rec(items, a.lead) if isinstance(a, Rec) else Tup(items)
        if isinstance(b, (Tup, Rec)):
            items = [self.mul(a, x, inv) for x in b.items]
            return Rec(items, b.lead) if isinstance(b, Rec) else Tup(items)
        if a is ZERO:
            return ZERO
        if b is ZERO:
            return ZERO  # x * 0 = 0, x / 0 = inf/nan: polymorphic either way
        return a.div(b) if inv else a.mul(b)

    def join(self, a, b):
        if a is None:
            return b
        if b is None:
            return a
        if a is b:
            return a
        if isinstance(a, Const) and isinstance(b, Const) and a.v == b.v and type(a.v) is type(b.v):
            return a
        if isinstance(a, Const) and a.v is None:
            return b  # Optional[...]: the None alternative is handled by explicit tests
        if isinstance(b, Const) and b.v is None:
            return a
        if isinstance(a, Const) and isinstance(b, Const) and (isinstance(a.v, str) or isinstance(b.v, str)):
            return TOP
        if isinstance(a, Fn) or isinstance(b, Fn):
            if isinstance(a, Fn) and isinstance(b, Fn) and a.target is b.target:
                return a
            if isinstance(a, Fn) and isinstance(b, Fn):
                return Fn("union", [a, b])
            return TOP
        if isinstance(a, KW) or isinstance(b, KW):
            return TOP
        sa, sb = strip(a), strip(b)
        if isinstance(sa, (Tup, Rec)) and isinstance(sb, (Tup, Rec)) and len(sa.items) == len(sb.items):
            items = [self.join(x, y) for x, y in zip(sa.items, sb.items)]
            if isinstance(sa, Rec) or isinstance(sb, Rec):
                return Rec(items, sa.lead if isinstance(sa, Rec) else sb.lead)
            return Tup(items)
        for x, y in ((sa, sb), (sb, sa)):
            if isinstance(x, Dim) and isinstance(y, Rec) and all((strip(i) == x) or strip(i) is ZERO for i in y.items):
                return x  # a homogeneous array seen once with and once without record structure
        if isinstance(sa, Obj) and isinstance(sb, Obj):
            if sa.kind != sb.kind:
                # a container converted to another representation (dict of floats -> structured
                # array): readers after the conversion see the new one
                return sb if {sa.kind, sb.kind} == {"dict", "struct"} else TOP
            return sa if sa.cls == sb.cls else TOP
        if sa is ZERO:
            return sb
        if sb is ZERO:
            return sa
        if sa is TOP or sb is TOP:
            return TOP
        if sa is IMPURE or sb is IMPURE:
            return IMPURE
        if isinstance(sa, Dim) and isinstance(sb, Dim) and sa == sb:
            return sa
        return TOP  # different dimensions on different branches: unknown, not a clash

    # ------------------------------------------------------------------ dicts
    def dict_store(self, d, key, val, replace=False):
        if isinstance(key, Const) and isinstance(key.v, str):
            d.attrs["__keys__"][key.v] = val
            return
        old = d.attrs["__val__"]
        d.attrs["__val__"] = val if (old is None or replace) else self.join(old, val)
        if not (isinstance(key, Const) and key.v is None):
            ok = d.attrs.get("__key__")
            d.attrs["__key__"] = key if ok is None else self.join(ok, key)

    def dict_load(self, d, key, node=None):
        if isinstance(key, Const) and isinstance(key.v, str):
            if key.v in d.attrs["__keys__"]:
                return d.attrs["__keys__"][key.v]
            return TOP
        if d.attrs["__val__"] is None:
            fac = d.attrs.get("__factory__")
            if fac is None:
                return TOP
            d.attrs["__val__"] = self.make_default(fac, node)
        return d.attrs["__val__"]

    def make_default(self, fac, node):
        if isinstance(fac, Fn):
            return self.apply(fac, [], {}, node)
        if isinstance(fac, Obj) and fac.kind == "ext":
            return ZERO  # float / int / np.float64 factories
        return TOP

    # ------------------------------------------------------------------ calls
    def call_function(self, f, args, kwargs, selfobj=None, closure_env=None):
        """abstractly execute FunctionDef ``f``; returns the joined return value"""
        ov = self.overrides.get((f._mod, f._qual))
        if ov is not None:
            return ov(self, args, kwargs, f)
        key = (id(f), sig(args), sig(sorted(kwargs.items(), key=lambda kv: kv[0])), sig(selfobj) if selfobj is not None else 0, id(closure_env) if closure_env else 0)
        if closure_env is None and key in self.memo:
            return self.memo[key]
        if key in self.stack:
            return ZERO  # recursive call: optimistic bottom, the other return branches give the dimension
        if self.depth > 60:
            return TOP
        self.stack.append(key)
        self.depth += 1
        saved = self.fn
        self.fn = f"{f._mod}.{f._qual}"
        self.rep.cur = self.fn
        self.rep.calls += 1
        self.rep.funcs.add(self.fn)
        env = dict(closure_env) if closure_env else {}
        env["__scalars__"] = set(env.get("__scalars__", ()))
        env["__f__"] = f
        if closure_env is not None:
            env["__outer__"] = closure_env
            loc = {x.arg for x in f.args.posonlyargs + f.args.args + f.args.kwonlyargs}
            for n in ast.walk(f):
                if isinstance(n, ast.Name) and isinstance(n.ctx, ast.Store):
                    loc.add(n.id)
            env["__locals__"] = loc
        a = f.args
        pos = [x.arg for x in a.posonlyargs + a.args]
        args = list(args)
        if selfobj is not None and pos:
            env[pos[0]] = selfobj
            pos = pos[1:]
        extra_kw = dict(kwargs)
        if any(isinstance(x, StarArg) for x in args):
            i = next(i for i, x in enumerate(args) if isinstance(x, StarArg))
            fill = [p for p in pos[i:] if p not in kwargs]
            args = args[:i] + [args[i].v] * len(fill)
        for p, v in zip(pos, args):
            env[p] = v
        if len(args) > len(pos) and a.vararg:
            env[a.vararg.arg] = Tup(args[len(pos) :])
        names = pos + [x.arg for x in a.kwonlyargs]
        for p in names:
            if p in extra_kw:
                env[p] = extra_kw.pop(p)
        if a.kwarg:
            env[a.kwarg.arg] = KW(extra_kw)
        # defaults
        allpos = a.posonlyargs + a.args
        for p, d in zip(allpos[len(allpos) - len(a.defaults) :], a.defaults):
            if p.arg not in env:
                env[p.arg] = self.ev(d, env)
        for p, d in zip(a.kwonlyargs, a.kw_defaults):
            if p.arg not in env and d is not None:
                env[p.arg] = self.ev(d, env)
        for p in names:
            if p not in env:
                env[p] = TOP
        rets = []
        try:
            self.block(f.body, env, rets)
        finally:
            self.fn = saved
            self.rep.cur = saved
            self.stack.pop()
            self.depth -= 1
        r = None
        for x in rets:
            r = self.join(r, x)
        r = r if r is not None else Const(None)
        if closure_env is None:
            self.memo[key] = r
        self.returns.setdefault(f"{f._mod}.{f._qual}", []).append(r)
        return r

    def instantiate(self, mod, cname, args, kwargs):
        o = Obj((mod, cname))
        self.objects.append((cname, o))
        cdef = self.repo.mods[mod].classes[cname]
        # class-level constants
        for mm, cc in reversed(self.repo.mro(mod, cname)):
            for s in self.repo.mods[mm].classes[cc].body:
                if isinstance(s, ast.Assign) and isinstance(s.targets[0], ast.Name):
                    o.attrs[s.targets[0].id] = self.ev(s.value, {"__scalars__": set(), "__mod__": mm})
        if any("namedtuple" in U(b) for b in cdef.bases):
            return Tup(list(args) + [v for _, v in sorted(kwargs.items())]) if not kwargs else Tup(list(args) + list(kwargs.values()))
        init = self.repo.class_init(cdef, mod)
        if init is not None:
            self.call_function(init, args, kwargs, selfobj=o)
        return o

    def lookup_method(self, obj, name):
        if obj.cls is None:
            return None
        for mm, cc in self.repo.mro(*obj.cls):
            q = f"{cc}.{name}"
            if q in self.repo.mods[mm].funcs:
                return self.repo.mods[mm].funcs[q]
        return None

    def apply(self, fv, args, kwargs, node):
        """call an abstract callable"""
        if isinstance(fv, Fn):
            if fv.kind == "func":
                f = fv.target
                static = any(U(d) == "staticmethod" for d in f.decorator_list)
                so = fv.selfobj if (fv.selfobj is not None and not static) else None
                if any(U(d) == "classmethod" for d in f.decorator_list):
                    so = fv.selfobj if fv.selfobj is not None else Obj(None)
                return self.call_function(f, args, kwargs, selfobj=so)
            if fv.kind == "closure":
                return self.call_function(fv.target, args, kwargs, closure_env=fv.env)
            if fv.kind == "class":
                return self.instantiate(fv.target[0], fv.target[1], args, kwargs)
            if fv.kind == "partial":
                base, pargs, pkw = fv.target
                kw2 = dict(pkw)
                kw2.update(kwargs)
                return self.apply(base, list(pargs) + list(args), kw2, node)
            if fv.kind == "union":
                r = None
                for x in fv.target:
                    r = self.join(r, self.apply(x, args, kwargs, node))
                return r
            if fv.kind == "builtin":
                return fv.target(self, args, kwargs, node)
            if fv.kind == "lambda":
                lam = fv.target
                e1 = self.fork(fv.env)
                for p, v in zip([a.arg for a in lam.args.args], args):
                    e1[p] = v
                return self.ev(lam.body, e1)
        self.rep.top()
        return TOP

    # ------------------------------------------------------------------ statements
    def block(self, stmts, env, rets):
        for st in stmts:
            if env.get("__dead__"):
                return
            self.stmt(st, env, rets)

    def is_scalar_index(self, e, env):
        if isinstance(e, ast.Constant):
            return not isinstance(e.value, type(Ellipsis))
        if isinstance(e, ast.Name):
            if e.id in env.get("__scalars__", ()):
                return True
            v = self.lookup(e.id, env)
            return isinstance(v, Const)
        if isinstance(e, ast.BinOp):
            return self.is_scalar_index(e.left, env) and self.is_scalar_index(e.right, env)
        if isinstance(e, ast.UnaryOp):
            return self.is_scalar_index(e.operand, env)
        if isinstance(e, ast.Attribute):
            v = self.ev(e, env)
            return isinstance(v, Const) or e.attr in ("id", "parent", "child", "node", "edge", "site", "root")
        if isinstance(e, ast.Subscript):
            return self.sub_all_scalar(e, env)
        return False

    def sub_all_scalar(self, sub, env):
        idx = sub.slice.elts if isinstance(sub.slice, ast.Tuple) else [sub.slice]
        return all(self.is_scalar_index(i, env) for i in idx)

    def const_index(self, e, env):
        if isinstance(e, ast.Constant) and isinstance(e.value, int):
            return e.value
        if isinstance(e, ast.UnaryOp) and isinstance(e.op, ast.USub) and isinstance(e.operand, ast.Constant):
            return -e.operand.value
        v = self.ev(e, env) if isinstance(e, (ast.Name, ast.Attribute, ast.Call)) else None
        if isinstance(v, Const) and isinstance(v.v, int) and not isinstance(v.v, bool):
            return v.v
        return None

    def store(self, tgt, val, env, node, aug=None):
        if isinstance(tgt, ast.Name):
            if aug is not None:
                val = self.binop(aug, self.lookup(tgt.id, env), val, node)
            env[tgt.id] = val
            if isinstance(node, ast.Assign) and isinstance(node.value, ast.Subscript) and self.sub_all_scalar(node.value, env):
                env["__scalars__"].add(tgt.id)
            elif isinstance(node, ast.Assign) and tgt.id in env["__scalars__"] and not isinstance(node.value, (ast.Constant,)):
                pass
            return
        if isinstance(tgt, ast.Starred):
            self.store(tgt.value, TOP, env, node)
            return
        if isinstance(tgt, (ast.Tuple, ast.List)):
            v = strip(val) if not isinstance(val, Tup) else val
            if isinstance(v, Rec) and v.lead in (0, None) and len(v.items) == len(tgt.elts):
                vals = v.items
            elif isinstance(v, Rec) and v.lead is not None and v.lead >= 1 and len(tgt.elts) != len(v.items):
                vals = [Rec(v.items, v.lead - 1)] * len(tgt.elts)
            elif isinstance(v, Tup) and len(v.items) == len(tgt.elts):
                vals = v.items
            elif isinstance(v, Dim) or v is ZERO:
                vals = [v] * len(tgt.elts)
            else:
                vals = [TOP] * len(tgt.elts)
            srcs = [None] * len(tgt.elts)
            if isinstance(node, ast.Assign) and isinstance(node.value, ast.Tuple) and len(node.value.elts) == len(tgt.elts):
                srcs = node.value.elts
            for t, x, src in zip(tgt.elts, vals, srcs):
                self.store(t, x, env, node)
                if isinstance(t, ast.Name) and src is not None and isinstance(src, ast.Subscript) and self.sub_all_scalar(src, env):
                    env["__scalars__"].add(t.id)
            return
        if isinstance(tgt, ast.Attribute):
            base = self.ev(tgt.value, env)
            if isinstance(base, Obj):
                if aug is not None:
                    val = self.binop(aug, base.attrs.get(tgt.attr, TOP), val, node)
                old = base.attrs.get(tgt.attr)
                if isinstance(val, Const) and isinstance(val.v, bool) and old is not None and env.get("__f__") is not None and env["__f__"].name != "__init__":
                    # a boolean flag written under some condition: both values remain possible
                    if not (isinstance(old, Const) and old.v == val.v) and (isinstance(old, Const) and isinstance(old.v, bool) or old is ONE or (isinstance(old, Dim) and old.isone())):
                        val = ONE
                base.attrs[tgt.attr] = val
            return
        if isinstance(tgt, ast.Subscript):
            cur = self.ev(tgt, env)
            newel = self.binop(aug, cur, val, node) if aug is not None else val
            self.update_container(tgt, newel, env, node)

    def update_container(self, tgt, newel, env, node):
        base_expr = tgt.value
        base = self.ev(base_expr, env)
        if isinstance(base, Obj) and base.kind == "dict":
            self.dict_store(base, self.ev(tgt.slice, env), newel, replace=isinstance(node, ast.AugAssign))
            return
        if isinstance(base, Obj) and base.kind == "struct":
            return
        if isinstance(base, Obj):
            # obj[key] = value  ->  __setitem__
            m = self.lookup_method(base, "__setitem__")
            if m is not None:
                self.call_function(m, [self.ev(tgt.slice, env), newel], {}, selfobj=base)
            return
        idx = tgt.slice.elts if isinstance(tgt.slice, ast.Tuple) else [tgt.slice]
        if any(isinstance(i, ast.Constant) and isinstance(i.value, str) for i in idx) or any(isinstance(self.ev(i, env), Const) and isinstance(self.ev(i, env).v, str) for i in idx if isinstance(i, ast.Name)):
            return  # field of a structured array / dict entry: not modelled
        idx = [i for i in idx if not (isinstance(i, ast.Attribute) and i.attr == "newaxis") and not (isinstance(i, ast.Constant) and i.value is None)]
        base_s = strip(base)
        ne = strip(newel)
        new_base = None
        inplace = isinstance(node, ast.AugAssign)
        if isinstance(base_s, Rec):
            Ld = base_s.lead
            k = self.const_index(idx[-1], env) if idx else None
            if Ld is not None and len(idx) == Ld + 1 and k is not None and -len(base_s.items) <= k < len(base_s.items):
                items = list(base_s.items)
                old = items[k]
                if old is ZERO or old is TOP or inplace:
                    items[k] = ne if ne is not ZERO or old is TOP else old
                else:
                    items[k] = self.unify(old, ne, node, "store into typed column")
                new_base = Rec(items, Ld)
            elif isinstance(ne, (Rec, Tup)) and len(ne.items) == len(base_s.items):
                items = []
                for o, n in zip(base_s.items, ne.items):
                    n = strip(n)
                    if o is ZERO or o is TOP or inplace:
                        items.append(n if n is not ZERO else o)
                    else:
                        items.append(self.unify(o, n, node, "store into typed record"))
                new_base = Rec(items, Ld)
            elif ne is ZERO:
                new_base = base_s
            elif ne is TOP:
                new_base = Rec([TOP if o is ZERO else o for o in base_s.items], Ld)
            else:
                items = [self.unify(o, ne, node, "store into typed record") if o is not ZERO else ne for o in base_s.items]
                new_base = Rec(items, Ld)
        elif base_s is ZERO:
            if isinstance(ne, Tup):
                new_base = Rec([strip(x) for x in ne.items], len(idx))
            else:
                new_base = ne
        elif base_s is TOP:
            new_base = TOP
        elif isinstance(base_s, Dim):
            if isinstance(ne, Dim) and inplace:
                new_base = ne if ne == base_s else self.unify(base_s, ne, node, "in-place update changes the dimension of a homogeneous array")
            elif isinstance(ne, (Tup, Rec)):
                new_base = base_s
                for x in ne.items:
                    self.unify(base_s, x, node, "store into typed array")
            else:
                new_base = self.unify(base_s, ne, node, "store into typed array")
        elif base_s is IMPURE:
            new_base = IMPURE
        if new_base is None:
            return
        if isinstance(base_s, Rec) and isinstance(new_base, Rec) and len(new_base.items) == len(base_s.items):
            # arrays have reference semantics: the caller's record array sees the update
            base_s.items[:] = new_base.items
            return
        if isinstance(base_expr, ast.Name):
            env[base_expr.id] = new_base
            outer = env.get("__outer__")
            if outer is not None and base_expr.id not in env.get("__locals__", ()) and base_expr.id in outer:
                outer[base_expr.id] = new_base  # captured array mutated in place
        elif isinstance(base_expr, ast.Attribute):
            o = self.ev(base_expr.value, env)
            if isinstance(o, Obj):
                o.attrs[base_expr.attr] = new_base
        elif isinstance(base_expr, ast.Subscript):
            self.update_container(base_expr, new_base, env, node)

    def truth(self, c):
        """python truthiness of an abstract value when statically known"""
        if isinstance(c, Const):
            return bool(c.v)
        return None

    def stmt(self, st, env, rets):
        if isinstance(st, ast.Assign):
            v = self.ev(st.value, env)
            for t in st.targets:
                self.store(t, v, env, st)
        elif isinstance(st, ast.AnnAssign):
            if st.value is not None:
                self.store(st.target, self.ev(st.value, env), env, st)
        elif isinstance(st, ast.AugAssign):
            v = self.ev(st.value, env)
            self.store(st.target, v, env, st, aug=st.op)
        elif isinstance(st, ast.Return):
            rets.append(self.ev(st.value, env) if st.value else Const(None))
            env["__dead__"] = True
        elif isinstance(st, ast.Raise):
            env["__dead__"] = True
        elif isinstance(st, (ast.Continue, ast.Break)):
            env["__dead__"] = "loop"
        elif isinstance(st, ast.If):
            c = self.ev(st.test, env)
            tv = self.truth(c)
            if tv is not None:
                self.block(st.body if tv else st.orelse, env, rets)
                return
            e1, e2 = self.fork(env), self.fork(env)
            self.narrow(st.test, e1, True)
            self.narrow(st.test, e2, False)
            self.block(st.body, e1, rets)
            self.block(st.orelse, e2, rets)
            self.merge(env, e1, e2)
        elif isinstance(st, ast.While):
            c = self.ev(st.test, env)
            if self.truth(c) is False:
                return
            for _ in range(2):
                e1 = self.fork(env)
                self.block(st.body, e1, rets)
                e1.pop("__dead__", None) if e1.get("__dead__") == "loop" else None
                self.merge(env, e1, self.fork(env))
        elif isinstance(st, ast.For):
            it = self.ev(st.iter, env)
            el = self.elem(it)
            for _ in range(2):
                e1 = self.fork(env)
                if isinstance(st.target, ast.Name):
                    e1[st.target.id] = el
                    e1["__scalars__"].add(st.target.id)
                else:
                    fake = ast.Assign(targets=[st.target], value=ast.Constant(0))
                    self.store(st.target, el, e1, fake)
                    for t in ast.walk(st.target):
                        if isinstance(t, ast.Name):
                            e1["__scalars__"].add(t.id)
                self.block(st.body, e1, rets)
                if e1.get("__dead__") == "loop":
                    e1.pop("__dead__")
                self.merge(env, e1, self.fork(env))
            self.block(st.orelse, env, rets)
        elif isinstance(st, ast.Assert):
            self.suppress += 1  # assertions are diagnostics: evaluated for effects on ⊤ counts only
            try:
                self.ev(st.test, env)
            finally:
                self.suppress -= 1
            self.narrow(st.test, env, True)
        elif isinstance(st, ast.Expr):
            txt = U(st.value)
            if txt.startswith(("logger.", "logging.")):
                self.suppress += 1
                try:
                    self.ev(st.value, env)
                finally:
                    self.suppress -= 1
            else:
                self.ev(st.value, env)
        elif isinstance(st, ast.FunctionDef):
            env[st.name] = Fn("closure", st, env=env)
        elif isinstance(st, ast.With):
            for it in st.items:
                v = self.ev(it.context_expr, env)
                if it.optional_vars is not None:
                    self.store(it.optional_vars, TOP if not isinstance(v, Obj) else v, env, st)
            self.block(st.body, env, rets)
        elif isinstance(st, ast.Try):
            e0 = self.fork(env)
            before = self.missing_attr
            self.block(st.body, env, rets)
            if self.missing_attr > before and any(h.type is not None and "AttributeError" in U(h.type) for h in st.handlers):
                # the body reads an attribute that no method of the class ever sets: on this
                # abstract path the body faults and only the handler continues
                env["__dead__"] = True
            for h in st.handlers:
                eh = self.fork(e0)
                if h.name:
                    eh[h.name] = TOP
                self.block(h.body, eh, rets)
                self.merge(env, self.fork(env), eh)
            self.block(st.orelse, env, rets)
            self.block(st.finalbody, env, rets)
        elif isinstance(st, (ast.Pass, ast.Import, ast.ImportFrom, ast.Global, ast.Nonlocal, ast.Delete, ast.ClassDef)):
            pass

    def narrow(self, test, env, pol):
        """`x is None` / `x is not None` / isinstance refinements"""
        if isinstance(test, ast.UnaryOp) and isinstance(test.op, ast.Not):
            return self.narrow(test.operand, env, not pol)
        if isinstance(test, ast.Compare) and len(test.ops) == 1 and isinstance(test.left, ast.Name):
            op = test.ops[0]
            if isinstance(test.comparators[0], ast.Constant) and test.comparators[0].value is None and isinstance(op, (ast.Is, ast.IsNot)):
                is_none = isinstance(op, ast.Is) == pol
                if is_none:
                    env[test.left.id] = Const(None)

    def fork(self, env):
        e = dict(env)
        e["__scalars__"] = set(env.get("__scalars__", ()))
        return e

    def merge(self, env, e1, e2):
        d1, d2 = e1.get("__dead__"), e2.get("__dead__")
        if d1 and d2:
            env["__dead__"] = d1 if d1 == d2 else True
            return
        if d1 or d2:
            live = e2 if d1 else e1
            for k in list(env):
                if k not in live:
                    del env[k]
            env.update(live)
            env.pop("__dead__", None)
            return
        for k in set(e1) | set(e2):
            if k == "__scalars__":
                env[k] = e1[k] | e2[k]
            elif k in e1 and k in e2:
                env[k] = e1[k] if e1[k] is e2[k] else self.join(e1[k], e2[k])
            else:
                env[k] = e1.get(k, e2.get(k))

    def elem(self, it):
        if isinstance(it, Tup) and getattr(it, "is_zip", False):
            return Tup(it.items)
        it = strip(it) if not isinstance(it, Tup) else it
        if isinstance(it, Tup):
            r = None
            for x in it.items:
                r = self.join(r, x)
            return r if r is not None else TOP
        if isinstance(it, Rec):
            if it.lead is None:
                return it
            if it.lead == 0:
                r = None
                for x in it.items:
                    r = self.join(r, x)
                return r
            return Rec(it.items, it.lead - 1)
        if isinstance(it, Obj):
            if it.kind == "dict":
                k = it.attrs.get("__key__")
                return k if k is not None else ONE
            el = it.attrs.get("__elem__")
            if isinstance(el, Tup) and getattr(el, "is_zip", False):
                t = Tup(el.items)
                return t
            return el if el is not None else TOP
        return it

    # ------------------------------------------------------------------ expressions
    def lookup(self, name, env):
        if name in env:
            return env[name]
        f = env.get("__f__")
        mod = f._mod if f is not None else env.get("__mod__")
        if name in ("nan", "inf"):
            return ZERO
        if name in ("True", "False", "None"):
            return Const({"True": True, "False": False, "None": None}[name])
        if mod is not None:
            return self.module_name(mod, name)
        return TOP

    def module_name(self, mod, name, _seen=None):
        m = self.repo.mods[mod]
        if name in m.funcs:
            return Fn("func", m.funcs[name])
        if name in m.classes:
            return Fn("class", (mod, name))
        if name in m.consts:
            key = ("const", mod, name)
            if key in self.memo:
                return self.memo[key]
            self.memo[key] = TOP
            v = self.ev(m.consts[name], {"__scalars__": set(), "__mod__": mod})
            self.memo[key] = v
            return v
        imp = m.imports.get(name)
        if imp:
            if imp[0] == "sym" and imp[1] in self.repo.mods:
                return self.module_name(imp[1], imp[2])
            if imp[0] == "mod" and imp[1] in self.repo.mods:
                return Obj(None, {"__module__": imp[1]}, kind="module")
            if imp[0] == "ext":
                if imp[1] in ("math.pi", "math.e", "numpy.pi"):
                    return ONE
                if imp[1] in ("math.inf", "math.nan", "numpy.inf", "numpy.nan"):
                    return ZERO
                return Obj(None, {"__ext__": imp[1]}, kind="ext")
        return TOP

    def binop(self, op, a, b, node):
        if isinstance(op, (ast.Add, ast.Sub)):
            if isinstance(a, Const) and isinstance(b, Const) and isinstance(a.v, (int, float)) and isinstance(b.v, (int, float)) and not isinstance(a.v, bool):
                try:
                    return Const(a.v + b.v if isinstance(op, ast.Add) else a.v - b.v)
                except Exception:
                    return ONE
            return self.unify(a, b, node, "add/sub of different dimensions")
        if isinstance(op, ast.Mult):
            return self.mul(a, b)
        if isinstance(op, (ast.Div, ast.FloorDiv)):
            return self.mul(a, b, inv=True)
        if isinstance(op, ast.Mod):
            return self.unify(a, b, node, "mod")
        if isinstance(op, ast.Pow):
            k = node.right if isinstance(node, ast.BinOp) else getattr(node, "value", None)
            sa = strip(a)
            kv = None
            if isinstance(k, ast.Constant) and isinstance(k.value, (int, float)):
                kv = k.value
            elif isinstance(b, Const) and isinstance(b.v, (int, float)):
                kv = b.v
            if kv is not None:
                if isinstance(sa, Dim):
                    return sa.pow(F(kv).limit_denominator(1000))
                if isinstance(sa, (Rec, Tup)):
                    return TOP
                return sa
            self.unify(sa, ONE, node, "base of a non-literal power must be dimensionless")
            self.unify(b, ONE, node, "exponent must be dimensionless")
            return ONE if sa is not IMPURE else IMPURE
        if isinstance(op, (ast.BitAnd, ast.BitOr, ast.BitXor, ast.LShift, ast.RShift)):
            return ONE
        if isinstance(op, ast.MatMult):
            return self.mul(a, b)
        return TOP

    def ev(self, e, env):
        if e is None:
            return Const(None)
        if isinstance(e, ast.Constant):
            v = e.value
            if isinstance(v, (bool, str)) or v is None:
                return Const(v)
            if isinstance(v, int):
                return Const(v)
            if isinstance(v, float):
                return ZERO if v == 0 else ONE
            return ONE
        if isinstance(e, ast.Name):
            return self.lookup(e.id, env)
        if isinstance(e, ast.Attribute):
            return self.attribute(e, env)
        if isinstance(e, ast.UnaryOp):
            v = self.ev(e.operand, env)
            if isinstance(e.op, ast.Not):
                t = self.truth(v)
                return Const(not t) if t is not None else ONE
            if isinstance(e.op, ast.Invert):
                return ONE
            if isinstance(v, Const) and isinstance(v.v, (int, float)) and not isinstance(v.v, bool):
                return Const(-v.v)
            return strip(v)
        if isinstance(e, ast.BinOp):
            return self.binop(e.op, self.ev(e.left, env), self.ev(e.right, env), e)
        if isinstance(e, ast.BoolOp):
            vals = [self.ev(v, env) for v in e.values]
            ts = [self.truth(v) for v in vals]
            if isinstance(e.op, ast.And):
                if any(t is False for t in ts):
                    return Const(False)
                if all(t is True for t in ts):
                    return vals[-1]
            else:
                if any(t is True for t in ts):
                    return Const(True)
                if all(t is False for t in ts):
                    return vals[-1]
            return ONE
        if isinstance(e, ast.Compare):
            l = self.ev(e.left, env)
            out = None
            for op, c in zip(e.ops, e.comparators):
                r = self.ev(c, env)
                if isinstance(op, (ast.Is, ast.IsNot)):
                    if isinstance(r, Const) and r.v is None:
                        if isinstance(l, Const):
                            out = Const((l.v is None) == isinstance(op, ast.Is))
                        elif l is not TOP:
                            out = Const(isinstance(op, ast.IsNot))
                    elif isinstance(l, Const) and isinstance(r, Const):
                        out = Const((l.v is r.v) == isinstance(op, ast.Is))
                elif isinstance(op, (ast.In, ast.NotIn)):
                    pass
                elif isinstance(l, Const) and isinstance(r, Const) and isinstance(l.v, (str, bool, int)) and isinstance(r.v, (str, bool, int)) and isinstance(op, (ast.Eq, ast.NotEq)):
                    out = Const((l.v == r.v) == isinstance(op, ast.Eq))
                else:
                    self.unify(l, r, e, "comparison of different dimensions")
                l = r
            return out if out is not None and len(e.ops) == 1 else ONE
        if isinstance(e, ast.IfExp):
            c = self.ev(e.test, env)
            t = self.truth(c)
            if t is not None:
                return self.ev(e.body if t else e.orelse, env)
            return self.join(self.ev(e.body, env), self.ev(e.orelse, env))
        if isinstance(e, ast.Tuple):
            return Tup([self.ev(x, env) for x in e.elts])
        if isinstance(e, ast.List):
            r = None
            for x in e.elts:
                v = self.ev(x.value if isinstance(x, ast.Starred) else x, env)
                r = self.join(r, strip(v) if not isinstance(v, (Tup, Rec)) else v)
            return r if r is not None else ZERO
        if isinstance(e, (ast.ListComp, ast.GeneratorExp, ast.SetComp)):
            e1 = self.fork(env)
            for g in e.generators:
                it = self.ev(g.iter, e1)
                fake = ast.Assign(targets=[g.target], value=ast.Constant(0))
                self.store(g.target, self.elem(it), e1, fake)
                for t in ast.walk(g.target):
                    if isinstance(t, ast.Name):
                        e1["__scalars__"].add(t.id)
                for c in g.ifs:
                    self.ev(c, e1)
            el = self.ev(e.elt, e1)
            if isinstance(el, Obj) or (isinstance(el, Tup) and any(isinstance(x, Obj) for x in el.items)):
                return Obj(None, {"__elem__": el}, kind="iter")
            return el
        if isinstance(e, ast.Dict):
            d = new_dict()
            for k, v in zip(e.keys, e.values):
                vv = self.ev(v, env)
                if k is None:
                    continue
                kk = self.ev(k, env)
                self.dict_store(d, kk, vv)
            return d
        if isinstance(e, ast.DictComp):
            e1 = self.fork(env)
            for g in e.generators:
                it = self.ev(g.iter, e1)
                fake = ast.Assign(targets=[g.target], value=ast.Constant(0))
                self.store(g.target, self.elem(it), e1, fake)
            d = new_dict()
            self.dict_store(d, self.ev(e.key, e1), self.ev(e.value, e1))
            return d
        if isinstance(e, ast.Set):
            return ONE
        if isinstance(e, ast.Subscript):
            return self.subscript(e, env)
        if isinstance(e, ast.Call):
            return self.callexpr(e, env)
        if isinstance(e, ast.Slice):
            for x in (e.lower, e.upper, e.step):
                if x is not None:
                    self.ev(x, env)
            return ONE
        if isinstance(e, ast.JoinedStr):
            return Const("")
        if isinstance(e, ast.Lambda):
            return Fn("lambda", e, env=env)
        if isinstance(e, ast.Starred):
            return self.ev(e.value, env)
        if isinstance(e, ast.NamedExpr):
            v = self.ev(e.value, env)
            self.store(e.target, v, env, e)
            return v
        return TOP

    def attribute(self, e, env):
        n = U(e)
        if n in ("np.nan", "np.inf", "math.inf", "math.nan"):
            return ZERO
        if n in ("tskit.NULL",):
            return Const(-1)
        if n in ("tskit.UNKNOWN_TIME",):
            return ZERO
        if n in ("np.pi", "np.euler_gamma", "np.e", "math.pi"):
            return ONE
        if n == "np.newaxis":
            return Const(None)
        base = self.ev(e.value, env)
        if isinstance(base, Obj):
            if base.kind == "module":
                return self.module_name(base.attrs["__module__"], e.attr)
            if base.kind == "ext":
                return Obj(None, {"__ext__": base.attrs["__ext__"] + "." + e.attr}, kind="ext")
            if base.kind == "ts":
                return self.ts_attr(base, e.attr)
            if e.attr in base.attrs:
                return base.attrs[e.attr]
            m = self.lookup_method(base, e.attr)
            if m is not None:
                if any(U(d) == "property" for d in m.decorator_list):
                    return self.call_function(m, [], {}, selfobj=base)
                return Fn("func", m, selfobj=base)
            if base.cls is not None:
                self.missing_attr += 1  # would raise AttributeError at run time
            return TOP
        if isinstance(base, Fn) and base.kind == "class":
            # Class.attr : class constant or static method
            mod, cname = base.target
            for mm, cc in self.repo.mro(mod, cname):
                q = f"{cc}.{e.attr}"
                if q in self.repo.mods[mm].funcs:
                    return Fn("func", self.repo.mods[mm].funcs[q])
                for s in self.repo.mods[mm].classes[cc].body:
                    if isinstance(s, ast.Assign) and isinstance(s.targets[0], ast.Name) and s.targets[0].id == e.attr:
                        return self.ev(s.value, {"__scalars__": set(), "__mod__": mm})
            return TOP
        bs = strip(base)
        if e.attr == "T" and isinstance(bs, Rec):
            return Tup(bs.items)
        if e.attr == "T":
            return bs
        if e.attr in ("size", "shape", "ndim", "dtype", "num_rows"):
            return ONE
        if e.attr in ("real",):
            return bs
        if e.attr in ("tiny", "eps", "max", "min", "resolution") and isinstance(bs, Dim) and bs.isone():
            return ONE  # np.finfo(...).tiny etc.
        return TOP

    def ts_attr(self, ts, attr):
        tab = self.ts_table
        if attr in tab:
            v = tab[attr]
            return v() if callable(v) else v
        return TOP

    def subscript(self, e, env):
        base = self.ev(e.value, env)
        if isinstance(base, Obj) and base.kind == "dict":
            return self.dict_load(base, self.ev(e.slice, env), e)
        if isinstance(base, Obj) and base.kind == "struct":
            k = self.ev(e.slice, env)
            if isinstance(k, Const) and isinstance(k.v, str):
                return base.attrs.get(k.v, TOP)
            return base  # row selection keeps the record type
        if isinstance(base, Obj):
            m = self.lookup_method(base, "__getitem__")
            if m is not None:
                return self.call_function(m, [self.ev(e.slice, env)], {}, selfobj=base)
            if "__elem__" in base.attrs:
                return base.attrs["__elem__"]
            return TOP
        v = strip(base) if not isinstance(base, Tup) else base
        idx = e.slice.elts if isinstance(e.slice, ast.Tuple) else [e.slice]
        for i in idx:
            self.ev(i, env)
        idx = [i for i in idx if not (isinstance(i, ast.Attribute) and i.attr == "newaxis") and not (isinstance(i, ast.Constant) and i.value is None)]
        if isinstance(v, Rec):
            Ld = v.lead
            if Ld is None:
                k = self.const_index(idx[-1], env)
                if len(idx) >= 2 and k is not None and -len(v.items) <= k < len(v.items):
                    return v.items[k]
                return v
            if len(idx) <= Ld:
                ns = sum(1 for i in idx if self.is_scalar_index(i, env))
                return Rec(v.items, Ld - ns)
            if len(idx) == Ld + 1:
                k = self.const_index(idx[-1], env)
                if k is not None and -len(v.items) <= k < len(v.items):
                    return v.items[k]
                if isinstance(idx[-1], ast.Slice):
                    ns = sum(1 for i in idx[:-1] if self.is_scalar_index(i, env))
                    return Rec(v.items, Ld - ns)
                r = None
                for x in v.items:
                    r = self.join(r, x)
                return r
            return TOP
        if isinstance(v, Tup):
            k = self.const_index(idx[0], env)
            if k is not None and len(idx) == 1 and -len(v.items) <= k < len(v.items):
                return v.items[k]
            r = None
            for x in v.items:
                r = self.join(r, x)
            return r if r is not None else TOP
        return v

    # ------------------------------------------------------------------ call expressions
    def callexpr(self, e, env):
        fn = U(e.func)
        args = []
        for a in e.args:
            if isinstance(a, ast.Starred):
                v = self.ev(a.value, env)
                sv = v if isinstance(v, Tup) else strip(v)
                if isinstance(sv, (Tup, Rec)):
                    args.extend(sv.items)
                elif isinstance(sv, Dim) or sv is ZERO:
                    args.append(StarArg(sv))
                else:
                    args.append(TOP)
            else:
                args.append(self.ev(a, env))
        kw = {}
        for k in e.keywords:
            v = self.ev(k.value, env)
            if k.arg is None:
                if isinstance(v, KW):
                    kw.update(v.d)
            else:
                kw[k.arg] = v
        A = [strip(a.v if isinstance(a, StarArg) else a) if not isinstance(a, Tup) else a for a in args]
        # 1. package callables
        fv = None
        if isinstance(e.func, ast.Name):
            fv = self.lookup(e.func.id, env)
        elif isinstance(e.func, ast.Attribute):
            if isinstance(e.func.value, ast.Call) and U(e.func.value.func) == "super":
                f = env.get("__f__")
                so = env.get("self")
                if f is not None and f._cls and isinstance(so, Obj):
                    mro = self.repo.mro(f._mod, f._cls)[1:]
                    for mm, cc in mro:
                        q = f"{cc}.{e.func.attr}"
                        if q in self.repo.mods[mm].funcs:
                            return self.call_function(self.repo.mods[mm].funcs[q], args, kw, selfobj=so)
                return Const(None)
            fv = self.ev(e.func, env)
        elif isinstance(e.func, (ast.Call, ast.Subscript, ast.IfExp)):
            # callee computed by an expression: getattr(mod, name)(...), table[key](...)
            fv = self.ev(e.func, env)
        if isinstance(fv, Fn):
            return self.apply(fv, args, kw, e)
        # 2. numpy / builtins / scipy
        r = self.library(fn, e, args, A, kw, env)
        if r is not NotImplemented:
            return r
        # 3. methods on abstract arrays
        if isinstance(e.func, ast.Attribute):
            base = self.ev(e.func.value, env)
            r = self.method(base, e.func.attr, e, args, A, kw, env)
            if r is not NotImplemented:
                return r
        self.rep.unmodelled[fn] = self.rep.unmodelled.get(fn, 0) + 1
        self.rep.top()
        return TOP

    def library(self, fn, e, args, A, kw, env):
        if fn in ("defaultdict", "collections.defaultdict"):
            if e.args and U(e.args[0]) in ("float", "int", "np.float64", "node_time_class.FLOAT_DTYPE", "FLOAT_DTYPE"):
                return new_dict(Obj(None, {"__ext__": "float"}, kind="ext"))
            return new_dict(args[0] if args else None)
        if fn == "dict":
            d = new_dict()
            for k, v in kw.items():
                d.attrs["__keys__"][k] = v
            if args and isinstance(args[0], Obj) and args[0].kind == "dict":
                d.attrs["__keys__"].update(args[0].attrs["__keys__"])
                d.attrs["__val__"] = args[0].attrs["__val__"]
            return d
        if fn == "isinstance" and len(args) == 2:
            return self.fold_isinstance(args[0], e.args[1])
        if fn.endswith(".__new__") and args and isinstance(args[0], Fn) and args[0].kind == "class":
            o = Obj(args[0].target)
            for mm, cc in reversed(self.repo.mro(*args[0].target)):
                for st in self.repo.mods[mm].classes[cc].body:
                    if isinstance(st, ast.Assign) and isinstance(st.targets[0], ast.Name):
                        o.attrs[st.targets[0].id] = self.ev(st.value, {"__scalars__": set(), "__mod__": mm})
            return o
        if fn in ("np.array", "np.asarray", "np.empty", "np.zeros") and "dtype" in kw and isinstance(kw["dtype"], Obj) and kw["dtype"].kind == "structdtype":
            names = kw["dtype"].attrs["names"]
            el = A[0] if A else TOP
            if isinstance(el, (Tup, Rec)) and len(el.items) != len(names):
                el = self.elem(el)
            o = Obj(None, {}, kind="struct")
            if isinstance(el, Tup) and len(el.items) == len(names):
                for nme, v in zip(names, el.items):
                    o.attrs[nme] = strip(v)
            else:
                for nme in names:
                    o.attrs[nme] = TOP
            return o
        if fn == "np.dtype" and e.args and isinstance(e.args[0], ast.Dict):
            dd = e.args[0]
            for k, v in zip(dd.keys, dd.values):
                if isinstance(k, ast.Constant) and k.value == "names" and isinstance(v, (ast.Tuple, ast.List)):
                    return Obj(None, {"names": [x.value for x in v.elts if isinstance(x, ast.Constant)]}, kind="structdtype")
            return ONE
        if fn in ("log", "np.log", "math.log", "np.log2", "np.log10"):
            a = A[0] if A else TOP
            if a is TOP or isinstance(a, (Obj, Tup, Rec)):
                return TOP
            if a is IMPURE:
                return IMPURE
            if a is ZERO or (isinstance(a, Dim) and a.isone()):
                return ONE
            return IMPURE
        if fn == "pow" and len(A) == 2:
            self.unify(A[0], ONE, e, "base of pow() with a non-literal exponent must be dimensionless")
            self.unify(A[1], ONE, e, "exponent must be dimensionless")
            return ONE
        if fn in ("sqrt", "np.sqrt", "math.sqrt"):
            return A[0].pow(F(1, 2)) if isinstance(A[0], Dim) else A[0]
        if fn in ("min", "max", "np.minimum", "np.maximum", "np.union1d", "np.fmax", "np.fmin"):
            if len(A) == 1:
                return self.elem(A[0]) if isinstance(A[0], (Tup, Rec)) else A[0]
            r = A[0]
            for a in A[1:]:
                r = self.unify(r, a, e, f"{fn} of different dimensions")
            return r
        if fn in ("np.nextafter", "math.nextafter"):
            return A[0]
        if fn in ("np.append", "np.concatenate", "np.hstack", "np.insert", "np.stack"):
            items = list(A)
            if fn in ("np.concatenate", "np.hstack", "np.stack") and A and isinstance(A[0], Tup):
                items = [strip(x) for x in A[0].items]
            elif fn in ("np.concatenate", "np.hstack", "np.stack") and A:
                return A[0]
            if fn == "np.insert" and len(A) >= 3:
                items = [A[0], A[2]]
            if fn == "np.stack" and any(k == "axis" or True for k in kw) and len(e.args) > 1:
                # np.stack((a, b), 1) builds a record
                return Rec(items, 1)
            items = [x for x in items if not isinstance(x, Const)]
            if not items:
                return ZERO
            r = items[0]
            for a in items[1:]:
                r = self.unify(r, a, e, f"{fn} of different dimensions")
            return r
        if fn == "np.column_stack":
            t = A[0] if A else TOP
            return Rec([strip(x) for x in t.items], 1) if isinstance(t, Tup) else TOP
        if fn == "np.searchsorted":
            self.unify(A[0], A[1], e, "searchsorted of a value in an array of another dimension")
            return ONE
        if fn == "np.interp" and len(A) >= 3:
            self.unify(A[0], A[1], e, "np.interp abscissae")
            return A[2]
        if fn == "np.where":
            if len(A) == 3:
                return self.unify(A[1], A[2], e, "np.where branches of different dimensions")
            return Tup([ONE])
        if fn == "np.divide" and len(A) >= 2:
            return self.mul(A[0], A[1], inv=True)
        if fn == "np.multiply" and len(A) >= 2:
            return self.mul(A[0], A[1])
        if fn in ("np.subtract", "np.add") and len(A) >= 2:
            return self.unify(A[0], A[1], e, "add/sub of different dimensions")
        if fn in ("np.zeros", "np.ones", "np.empty", "np.full"):
            shp = e.args[0] if e.args else None
            fill = ZERO if fn in ("np.zeros", "np.empty") else (ONE if fn == "np.ones" else (A[1] if len(A) > 1 else TOP))
            if isinstance(fill, Const):
                fill = strip(fill)
            if isinstance(shp, ast.Tuple) and len(shp.elts) >= 2:
                last = shp.elts[-1]
                if isinstance(last, ast.Constant) and last.value == 2:
                    return Rec([fill, fill], len(shp.elts) - 1)
            return fill
        if fn in ("np.full_like", "np.zeros_like"):
            return ZERO if fn == "np.zeros_like" else (A[1] if len(A) > 1 else TOP)
        if fn == "np.array" and A and isinstance(A[0], Tup):
            return Rec([strip(x) for x in A[0].items], 0)
        if fn == "np.bincount":
            return strip(kw["weights"]) if "weights" in kw else ONE
        if fn == "np.pad":
            return A[0]
        if fn in ("np.isclose", "np.allclose") and len(A) >= 2:
            r = self.unify(A[0], A[1], e, f"{fn} operands of different dimensions")
            if isinstance(r, Dim) and not r.isone() and not self.suppress and "atol" not in kw and not self.diagnostic_only(env.get("__f__"), e):
                self.rep.clash(self.fn, e, f"{fn} on dimensioned values uses a hidden absolute tolerance (atol=1e-8)", r, ONE)
            return ONE
        if fn == "np.testing.assert_allclose":
            return Const(None)
        if fn in NP_SAME:
            if not A:
                return ZERO if fn == "list" else TOP
            a = A[0]
            if fn in ("np.sum", "np.mean", "np.max", "np.min", "sum", "np.median", "np.amax", "np.amin") and isinstance(a, Rec) and "axis" not in kw:
                return self.elem(Rec(a.items, 0))
            if isinstance(a, Tup) and fn in ("list", "tuple", "sorted", "reversed", "np.array", "np.asarray"):
                return a
            if isinstance(a, Rec):
                return Rec(a.items, a.lead)  # a fresh array
            return a
        if fn in NP_ONE:
            return ONE
        if fn in DIMLESS_ARG:
            for a in A:
                if not isinstance(a, Const):
                    self.unify(a, ONE, e, f"argument of {fn} must be dimensionless")
            return ONE
        if fn == "zip":
            t = Tup([self.elem(a) for a in A])
            t.is_zip = True
            return t
        if fn == "enumerate":
            t = Tup([ONE, self.elem(A[0]) if A else TOP])
            t.is_zip = True
            return t
        if fn == "next" and A:
            return self.elem(A[0])
        if fn == "iter" and A:
            return A[0]
        if fn in ("functools.partial", "partial") and args and isinstance(args[0], Fn):
            return Fn("partial", (args[0], args[1:], kw))
        if fn == "getattr" and len(args) >= 2 and isinstance(args[1], Const) and isinstance(args[1].v, str):
            base = args[0]
            if isinstance(base, Obj) and base.kind == "module":
                return self.module_name(base.attrs["__module__"], args[1].v)
            if isinstance(base, Obj):
                return base.attrs.get(args[1].v, TOP)
            return TOP
        if fn == "locals":
            return TOP
        if fn in ("itertools.groupby", "operator.attrgetter", "tqdm", "print"):
            if fn == "tqdm" and A:
                return args[0]
            if fn == "itertools.groupby" and args:
                t = Tup([ONE, args[0]])
                t.is_zip = True
                return t
            return TOP
        # scipy distributions: x ~ scale, shape parameters dimensionless, result dimensionless / ~scale
        for dist in ("scipy.stats.lognorm", "scipy.stats.gamma", "cdf_func"):
            if fn in (dist + ".cdf", dist + ".pdf", dist + ".logpdf", dist + ".sf") or fn == "cdf_func":
                scale = strip(kw.get("scale", ONE))
                if A:
                    self.unify(A[0], scale, e, f"{fn}: x and scale have different dimensions")
                for a in A[1:]:
                    self.unify(a, ONE, e, f"{fn}: shape parameter must be dimensionless")
                if "s" in kw:
                    self.unify(kw["s"], ONE, e, f"{fn}: shape parameter must be dimensionless")
                return ONE
            if fn == dist + ".ppf":
                self.unify(A[0], ONE, e, f"{fn}: probability must be dimensionless") if A else None
                for a in A[1:]:
                    self.unify(a, ONE, e, f"{fn}: shape parameter must be dimensionless")
                if "s" in kw:
                    self.unify(kw["s"], ONE, e, f"{fn}: shape parameter must be dimensionless")
                return strip(kw.get("scale", ONE))
        if fn in ("scipy.stats.poisson.pmf", "scipy.stats.poisson.logpmf", "poisson"):
            for a in A[:2]:
                self.unify(a, ONE, e, f"{fn}: Poisson mean and count must be dimensionless")
            return ONE
        if fn in ("np.histogram", "np.digitize"):
            return TOP
        return NotImplemented

    def fold_isinstance(self, v, classes_expr):
        names = [U(x) for x in classes_expr.elts] if isinstance(classes_expr, (ast.Tuple, ast.List)) else [U(classes_expr)]
        numeric = {"int", "float", "np.ndarray", "numpy.ndarray", "np.integer", "np.floating", "np.number"}
        if isinstance(v, Const):
            if v.v is None:
                return Const(False)
            pyt = {"int": int, "float": float, "str": str, "bool": bool, "dict": dict}
            ts_ = [pyt[n] for n in names if n in pyt]
            if len(ts_) == len(names) or isinstance(v.v, tuple(ts_) if ts_ else ()):
                return Const(isinstance(v.v, tuple(ts_)))
            if not isinstance(v.v, (int, float)):
                return Const(False)
            return ONE
        sv = strip(v)
        if isinstance(sv, (Dim, Rec)) or sv is ZERO:
            if set(names) <= numeric and ("np.ndarray" in names or "float" in names):
                # a dimensioned value is a float or an array: which of the two is unknown
                if {"float", "np.ndarray"} <= set(names) or {"int", "float", "np.ndarray"} <= set(names):
                    return Const(True)
                return ONE
            if not (set(names) & numeric):
                return Const(False)
            return ONE
        if isinstance(v, Obj) and v.cls is not None:
            if any(n.split(".")[-1] == v.cls[1] for n in names):
                return Const(True)
            if set(names) <= numeric | {"dict", "str", "list", "tuple"}:
                return Const(False)
        if isinstance(v, Obj) and v.kind == "dict":
            return Const("dict" in names)
        if isinstance(v, Const):
            if v.v is None:
                return Const(False)
            pyt = {"int": int, "float": float, "str": str, "bool": bool}
            ts_ = [pyt[n] for n in names if n in pyt]
            if len(ts_) == len(names):
                return Const(isinstance(v.v, tuple(ts_)))
        return ONE

    def diagnostic_only(self, f, call):
        """the value of ``call`` is bound to a local that is read only inside logging calls (or never read)"""
        if f is None:
            return False
        from .base import own_nodes

        target = None
        for n in own_nodes(f):
            if isinstance(n, ast.Assign) and any(c is call for c in ast.walk(n.value)) and len(n.targets) == 1 and isinstance(n.targets[0], ast.Name):
                target = n.targets[0].id
        if target is None:
            return False
        logged = set()
        for n in own_nodes(f):
            if isinstance(n, ast.Call) and U(n.func).startswith(("logger.", "logging.")):
                for x in ast.walk(n):
                    if isinstance(x, ast.Name) and x.id == target:
                        logged.add(id(x))
        loads = [x for x in own_nodes(f) if isinstance(x, ast.Name) and x.id == target and isinstance(x.ctx, ast.Load)]
        # a local that is never read at all (its logging statement was canonicalised away) is dead: diagnostic too
        return all(id(x) in logged for x in loads)

    def method(self, base, m, e, args, A, kw, env):
        bs = strip(base) if not isinstance(base, Tup) else base
        if isinstance(base, Obj) and base.kind == "ts":
            v = self.ts_table.get(m + "()")
            if v is not None:
                return v(self, args, kw) if callable(v) else v
            return TOP
        if isinstance(base, Obj):
            v = base.attrs.get(m + "()")
            if v is not None:
                return v(self, args, kw) if callable(v) else v
        if isinstance(base, Obj) and base.kind == "dict":
            val = base.attrs["__val__"]
            key = base.attrs.get("__key__")
            key = key if key is not None else ONE
            if m == "items":
                t = Tup([key, val if val is not None else TOP])
                t.is_zip = True
                return Obj(None, {"__elem__": t}, kind="iter")
            if m == "values":
                return Obj(None, {"__elem__": val if val is not None else TOP}, kind="iter")
            if m == "keys":
                return Obj(None, {"__elem__": key}, kind="iter")
            if m == "get":
                r = self.dict_load(base, args[0], e) if args else TOP
                return self.join(r, args[1]) if len(args) > 1 and r is not TOP else (args[1] if len(args) > 1 and r is TOP and not base.attrs["__keys__"] else r)
            if m in ("update", "pop", "setdefault", "clear"):
                if m == "update" and args and isinstance(args[0], Obj) and args[0].kind == "dict":
                    o = args[0]
                    base.attrs["__keys__"].update(o.attrs["__keys__"])
                    if o.attrs["__val__"] is not None:
                        self.dict_store(base, ONE, o.attrs["__val__"])
                return TOP if m != "update" else Const(None)
            return TOP
        if isinstance(base, KW):
            if m == "get" and e.args and isinstance(args[0], Const):
                return base.d.get(args[0].v, args[1] if len(args) > 1 else Const(None))
            return TOP
        if m in ("copy", "sum", "mean", "min", "max", "flatten", "cumsum", "astype", "squeeze", "ravel", "item", "tolist", "view", "reshape", "clip", "round", "std0"):
            if m in ("sum", "mean", "min", "max") and isinstance(bs, Rec) and "axis" not in kw and not A:
                return self.elem(Rec(bs.items, 0))
            if isinstance(bs, Rec):
                return Rec(bs.items, bs.lead)  # a fresh array
            return bs
        if m == "append" and isinstance(e.func.value, ast.Name):
            cur = self.lookup(e.func.value.id, env)
            a0 = A[0] if A else TOP
            if isinstance(cur, Const) or cur is TOP and not isinstance(env.get(e.func.value.id), _Tok):
                cur = ZERO
            env[e.func.value.id] = self.unify(cur, a0, e, "list.append of another dimension") if cur is not ZERO else a0
            return Const(None)
        if m == "extend" and isinstance(e.func.value, ast.Name):
            return Const(None)
        if m in ("setflags", "sort", "fill", "update", "add", "discard", "pop", "close", "info", "debug", "warning", "seek"):
            return Const(None) if m != "pop" else TOP
        if m in ("argsort", "argmax", "argmin", "any", "all", "nonzero", "keys", "count", "index"):
            return ONE
        if m in ("items", "values"):
            return TOP
        if m == "format":
            return Const("")
        return NotImplemented
