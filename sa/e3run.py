"""E3 drivers: tskit object model, roots, oracle.  Shared by C06 (T) and C07 (L)."""

import ast

from .base import AnalysisError, U
from .e3 import IMPURE, L, MU, ONE, RATE, TOP, ZERO, Const, Dim, Fn, Interp, Obj, Rec, Report, T, Tup, strip

T2 = Dim(2, 0)


def edge_row():
    return Obj(None, dict(span=L, left=L, right=L, parent=ONE, child=ONE, id=ONE), kind="row")


def iterable(el):
    return Obj(None, {"__elem__": el}, kind="iter")


def tree_obj():
    t = Obj(None, dict(span=L, interval=Tup([L, L]), root=ONE, index=ONE, has_single_root=ONE, has_multiple_roots=ONE, num_edges=ONE, roots=ONE, num_children_array=ONE), kind="tree")
    t.attrs["time()"] = T
    for m in ("parent", "children", "num_samples", "num_children", "num_tracked_samples", "is_internal", "is_leaf", "nodes", "is_sample", "samples", "leaves"):
        t.attrs[m + "()"] = ONE
    t.attrs["sites()"] = lambda interp, a, k: iterable(Obj(None, dict(id=ONE, position=L, mutations=iterable(Obj(None, dict(node=ONE, id=ONE, edge=ONE, time=T, site=ONE), kind="row"))), kind="row"))
    return t


def make_ts():
    ts = Obj(None, {}, kind="ts")
    return ts


def ts_table():
    tab = {}
    for n in "edges_parent edges_child mutations_node mutations_site nodes_flags nodes_individual nodes_population indexes_edge_insertion_order indexes_edge_removal_order num_nodes num_edges num_samples num_trees num_mutations num_sites num_individuals num_populations mutations_parent".split():
        tab[n] = ONE
    for n in "edges_left edges_right sites_position sequence_length".split():
        tab[n] = L
    for n in "nodes_time mutations_time".split():
        tab[n] = T
    tab["samples()"] = ONE
    tab["get_sequence_length()"] = L
    tab["edges()"] = lambda i, a, k: iterable(edge_row())
    tab["edge()"] = lambda i, a, k: edge_row()
    tab["node()"] = lambda i, a, k: Obj(None, dict(time=T, flags=ONE, id=ONE), kind="row")
    tab["mutations()"] = lambda i, a, k: iterable(Obj(None, dict(edge=ONE, node=ONE, id=ONE, site=ONE, time=T), kind="row"))
    tab["individuals()"] = lambda i, a, k: iterable(Obj(None, dict(id=ONE, nodes=ONE), kind="row"))
    tab["trees()"] = lambda i, a, k: iterable(tree_obj())
    tab["first()"] = lambda i, a, k: tree_obj()
    tab["edge_diffs()"] = lambda i, a, k: iterable(Tup([Tup([L, L]), iterable(edge_row()), iterable(edge_row())]))
    tab["simplify()"] = lambda i, a, k: Tup([make_ts(), ONE]) if "map_nodes" in k else make_ts()
    tab["dump_tables()"] = lambda i, a, k: Obj(None, {}, kind="tables")
    return tab


def namedtuple_ctor(fields):
    def ctor(interp, args, kwargs, node):
        o = Obj(None, {}, kind="namedtuple")
        for f, v in zip(fields, args):
            o.attrs[f] = v
        for k, v in kwargs.items():
            o.attrs[k] = v
        return o

    return ctor


def _dimless(interp, args, kwargs, f):
    for a in args:
        interp.unify(a, ONE, f, f"argument of {f.name} (binding to scipy.special) must be dimensionless")
    return ONE


class Driver(Interp):
    """Interp + namedtuple support + bindings to compiled special functions"""

    def __init__(self, *a, **k):
        super().__init__(*a, **k)
        self.overrides[("hypergeo", "_gammainc_inv")] = _dimless

    def library(self, fn, e, args, A, kw, env):
        if fn in ("collections.namedtuple", "namedtuple") and len(e.args) >= 2:
            fl = e.args[1]
            if isinstance(fl, (ast.List, ast.Tuple)):
                fields = [x.value for x in fl.elts if isinstance(x, ast.Constant)]
            elif isinstance(fl, ast.Constant) and isinstance(fl.value, str):
                fields = fl.value.replace(",", " ").split()
            else:
                return TOP
            return Fn("builtin", namedtuple_ctor(fields))
        if fn in ("np.genfromtxt", "np.loadtxt"):
            # external fact: the only table the package reads back is the prior cache, whose two
            # columns (fraction of tips, coalescent-scale variance) are dimensionless; reader/writer
            # agreement is C36's rule
            return Rec([ONE, ONE], 1)
        return super().library(fn, e, args, A, kw, env)


def analyse(repo):
    rep = Report()
    it = Driver(repo, rep, ts_table())
    results = {}
    ts = make_ts()
    # ---- root 1: variational_gamma through the public wrapper --------------------------
    f = repo.fn("core", "variational_gamma")
    results["variational_gamma"] = it.call_function(
        f, [ts], dict(mutation_rate=MU, min_branch_length=T, return_fit=Const(True), max_iterations=ONE, rescaling_intervals=ONE, rescaling_iterations=ONE, max_shape=ONE, singletons_phased=Const(False), record_provenance=Const(False))
    )
    # ---- root 2/3: the discrete-time methods --------------------------------------------
    for name, extra in (("inside_outside", dict(outside_standardize=Const(True), ignore_oldest_root=Const(False))), ("maximization", {})):
        f = repo.fn("core", name)
        for space in ("logarithmic", "linear"):
            results[f"{name}[{space}]"] = it.call_function(
                f, [make_ts()], dict(mutation_rate=MU, population_size=T, eps=T, min_branch_length=T, probability_space=Const(space), record_provenance=Const(False), **extra)
            )
    return rep, it, results
