"""
E4 -- tskit object typing and access classification.

A flow-insensitive type environment per function for values of tskit types (TreeSequence,
Tree, TableCollection, tables, row objects, iterators of those), propagated through
assignments, loops, ``self`` attributes, call arguments and return values to a fix-point.
Every attribute access / method call on a tskit-typed receiver is collected and classified
against the accessor table (design appendix A1).  An accessor that is not in the table is
an AnalysisError (the table must be extended by a human), never a silent pass.
"""

import ast

from .base import AnalysisError, U, own_nodes, bind_args

TS, TREE, TABLES = "TS", "Tree", "Tables"
TABLE_NAMES = ("nodes", "edges", "mutations", "sites", "individuals", "populations", "provenances", "migrations")

# ---- accessor table (A1) ---------------------------------------------------------------
STRUCTURAL_TS = set(
    "num_nodes num_edges num_samples num_trees num_mutations sequence_length get_sequence_length samples nodes_time "
    "nodes_flags edges_parent edges_child edges_left edges_right mutations_node mutations_site "
    "indexes_edge_insertion_order indexes_edge_removal_order trees first edge_diffs edges edge node mutations simplify "
    "mutations_edge at at_index breakpoints trim allele_frequency_spectrum keep_intervals delete_intervals".split()
)
MONOMORPHIC_TS = set("num_sites sites site".split())
RESTRICTED_TS = {"sites_position"}
INDIVIDUAL_TS = set("nodes_individual individuals individual num_individuals".split())
IRRELEVANT_TS = set(
    "metadata metadata_schema mutations_time mutations_parent mutations_derived_state sites_ancestral_state "
    "nodes_population populations population num_populations provenances provenance num_provenances migrations "
    "num_migrations individuals_flags individuals_location individuals_time individuals_population time_units tables dump_tables "
    "table_metadata_schemas mutations_metadata nodes_metadata sites_metadata individuals_metadata "
    "variants genotype_matrix haplotypes alignments".split()
)
TS_OTHER = set("dump tables_dict nbytes file_uuid equals".split())  # output / identity
STRUCTURAL_TREE = set(
    "parent children num_children num_children_array num_samples num_tracked_samples nodes interval span index root roots "
    "has_single_root has_multiple_roots is_internal is_leaf seek time seek_index next prev left_child right_child "
    "left_sib right_sib samples leaves mrca is_sample tree_sequence num_edges parent_array edge edge_array".split()
)
MONOMORPHIC_TREE = {"sites", "num_sites", "mutations", "num_mutations"}
ROW_STRUCTURAL = {
    "edge": set("id left right span parent child replace".split()),
    "node": set("id time flags is_sample".split()),
    "mutation": set("id edge node site".split()),
    "site": set("id position".split()),
    "individual": set("id nodes".split()),
    "edgediff": set("edges_in edges_out interval".split()),
}
ROW_IRRELEVANT = {
    "edge": {"metadata"},
    "node": {"metadata", "population", "individual"},
    "mutation": {"derived_state", "metadata", "time", "parent"},
    "site": {"ancestral_state", "metadata", "mutations"},
    "individual": {"metadata", "flags", "location", "parents", "time", "population"},
    "edgediff": set(),
}
TABLES_MUTATORS = set(
    "sort build_index compute_mutation_parents compute_mutation_times simplify subset union delete_intervals keep_intervals "
    "delete_sites trim ltrim rtrim clear deduplicate_sites canonicalise drop_index delete_older".split()
)
TABLES_READERS = set("tree_sequence sequence_length time_units copy equals nbytes has_index indexes metadata metadata_schema dump".split()) | set(TABLE_NAMES)
TABLE_MUTATORS = set(
    "set_columns append_columns add_row clear truncate keep_rows packset_metadata packset_derived_state packset_ancestral_state "
    "packset_location packset_parents packset_record packset_timestamp drop_metadata replace_with append extend".split()
)
RECORDS_PROVENANCE_BY_DEFAULT = set("simplify delete_intervals keep_intervals delete_sites trim ltrim rtrim subset union".split())


def elem(t):
    return t[5:] if isinstance(t, str) and t.startswith("Iter:") else None


class Typing:
    def __init__(self, repo, seeds=None):
        self.repo = repo
        self.env = {}  # FunctionDef -> {name: type}
        self.attr = {}  # (mod, class) -> {attr: type}
        self.ret = {}  # FunctionDef -> type
        self.seed_names = {"ts": TS, "tree_sequence": TS, "contmpr_ts": TS, "input_ts": TS, "dated_ts": TS, "snipped_ts": TS}
        self.rets = {}  # FunctionDef -> all return types seen
        self.conflicts = set()
        self.funcs = [f for _, _, f in repo.all_funcs()]
        for f in self.funcs:
            self.env[f] = {}
            for a in f.args.posonlyargs + f.args.args + f.args.kwonlyargs:
                if a.arg in self.seed_names:
                    self.env[f][a.arg] = self.seed_names[a.arg]
        self._fix()

    # -- type of an expression in function f ------------------------------------------------
    def ty(self, f, e):
        env = self.env[f]
        if isinstance(e, ast.Name):
            if e.id in env:
                return env[e.id]
            # enclosing function (closure)
            q = f._qual
            while "." in q:
                q = q.rsplit(".", 1)[0]
                g = self.repo.mods[f._mod].funcs.get(q)
                if g is not None and e.id in self.env.get(g, {}):
                    return self.env[g][e.id]
            return None
        if isinstance(e, ast.Attribute):
            bt = self.ty(f, e.value)
            if bt == TS:
                if e.attr == "tables":
                    return TABLES
                return None
            if bt == TABLES and e.attr in TABLE_NAMES:
                return f"Table:{e.attr}"
            if bt == "Row:site" and e.attr == "mutations":
                return "Iter:Row:mutation"
            if bt == TREE and e.attr == "tree_sequence":
                return TS
            if isinstance(e.value, ast.Name) and e.value.id == "self" and f._cls:
                for mm, cc in self.repo.mro(f._mod, f._cls):
                    t = self.attr.get((mm, cc), {}).get(e.attr)
                    if t:
                        return t
            if e.attr in ("ts", "tree_sequence") and bt is None:
                return TS  # any `.ts` attribute of a package object is a tree sequence
            return None
        if isinstance(e, ast.Subscript):
            bt = self.ty(f, e.value)
            if bt and bt.startswith("Tuple:"):
                parts = bt[6:].split(",")
                if isinstance(e.slice, ast.Constant) and isinstance(e.slice.value, int) and e.slice.value < len(parts):
                    return parts[e.slice.value] if parts[e.slice.value] != "?" else None
            return None
        if isinstance(e, ast.IfExp):
            return self.ty(f, e.body) or self.ty(f, e.orelse)
        if isinstance(e, ast.Call):
            fn = e.func
            if isinstance(fn, ast.Attribute):
                bt = self.ty(f, fn.value)
                m = fn.attr
                if bt == TS:
                    if m == "dump_tables":
                        return TABLES
                    if m == "simplify":
                        if any(k.arg == "map_nodes" and U(k.value) == "True" for k in e.keywords):
                            return "Tuple:TS,?"
                        return TS
                    if m in ("trees",):
                        return "Iter:Tree"
                    if m in ("first", "last", "at", "at_index"):
                        return TREE
                    if m in ("edges", "nodes", "mutations", "sites", "individuals"):
                        return f"Iter:Row:{m[:-1]}"
                    if m in ("edge", "node", "mutation", "site", "individual"):
                        return f"Row:{m}"
                    if m == "edge_diffs":
                        return "Iter:Row:edgediff"
                    if m in ("delete_intervals", "keep_intervals", "trim", "ltrim", "rtrim", "subset", "delete_sites"):
                        return TS
                    return None
                if bt == TABLES and m == "tree_sequence":
                    return TS
                if bt == TABLES and m == "copy":
                    return TABLES
                if bt == TREE and m == "sites":
                    return "Iter:Row:site"
                if bt == TREE and m == "mutations":
                    return "Iter:Row:mutation"
            if isinstance(fn, ast.Name) and fn.id in ("next", "iter") and e.args:
                t = self.ty(f, e.args[0])
                if fn.id == "next":
                    return elem(t)
                return t
            if isinstance(fn, ast.Name) and fn.id in ("tqdm", "reversed", "list", "sorted") and e.args:
                return self.ty(f, e.args[0])
            if isinstance(fn, ast.Name) and fn.id == "enumerate" and e.args:
                t = elem(self.ty(f, e.args[0]))
                return f"Iter:Tuple:?,{t}" if t else None
            if isinstance(fn, ast.Attribute) and U(fn) == "itertools.groupby" and e.args:
                t = self.ty(f, e.args[0])
                return f"Iter:Tuple:?,{t}" if t else None
            if U(fn) in ("tskit.load",):
                return TS
            tg = self.repo.resolve_call(f, e)
            if len(tg) == 1 and isinstance(tg[0], ast.FunctionDef):
                return self.ret.get(tg[0])
            if len(tg) > 1:
                ts_ = {self.ret.get(t) for t in tg if isinstance(t, ast.FunctionDef)}
                if len(ts_) == 1:
                    return ts_.pop()
            return None
        if isinstance(e, ast.GeneratorExp) or isinstance(e, ast.ListComp):
            # (self.ts.edge(u) for u in ...)
            t = self._comp_elt_type(f, e)
            return f"Iter:{t}" if t else None
        return None

    def ty_all(self, f, e):
        """all alternative types of a call whose callee returns values of different tskit types"""
        if isinstance(e, ast.Call):
            if isinstance(e.func, ast.Name) and e.func.id in ("tqdm", "reversed", "list", "sorted") and e.args:
                return self.ty_all(f, e.args[0])
            out = []
            for t in self.repo.resolve_call(f, e):
                if isinstance(t, ast.FunctionDef):
                    out += self.rets.get(t, [])
            if out:
                return out
        t = self.ty(f, e)
        return [t] if t else []

    def _comp_elt_type(self, f, e):
        # bind comprehension targets temporarily
        saved = dict(self.env[f])
        for g in e.generators:
            self._bind(f, g.target, elem(self.ty(f, g.iter)))
        t = self.ty(f, e.elt)
        self.env[f] = saved
        return t

    def _bind(self, f, target, t):
        if t is None:
            return False
        changed = False
        if isinstance(target, ast.Name):
            if target.id not in self.env[f]:
                self.env[f][target.id] = t
                changed = True
            elif self.env[f][target.id] != t:
                self.conflicts.add((f._mod, f._qual, target.id, self.env[f][target.id], t))
        elif isinstance(target, (ast.Tuple, ast.List)) and t.startswith("Tuple:"):
            parts = t[6:].split(",", len(target.elts) - 1) if t[6:].count(",") >= len(target.elts) - 1 else []
            # simple split: our tuple types never nest commas except in the last component
            parts = t[6:].split(",", len(target.elts) - 1)
            for el, p in zip(target.elts, parts):
                if p != "?":
                    changed |= self._bind(f, el, p)
        elif isinstance(target, (ast.Tuple, ast.List)) and t == "Row:edgediff" and len(target.elts) == 3:
            changed |= self._bind(f, target.elts[1], "Iter:Row:edge")
            changed |= self._bind(f, target.elts[2], "Iter:Row:edge")
        elif isinstance(target, ast.Attribute) and isinstance(target.value, ast.Name) and target.value.id == "self" and f._cls:
            d = self.attr.setdefault((f._mod, f._cls), {})
            if target.attr not in d:
                d[target.attr] = t
                changed = True
        return changed

    def _fix(self):
        for _ in range(12):
            changed = False
            for f in self.funcs:
                for n in own_nodes(f):
                    if isinstance(n, ast.Assign):
                        t = self.ty(f, n.value)
                        for tg in n.targets:
                            changed |= self._bind(f, tg, t)
                    elif isinstance(n, (ast.For, ast.comprehension)):
                        t = elem(self.ty(f, n.iter))
                        alts = [elem(x) for x in self.ty_all(f, n.iter)] or [t]
                        if isinstance(n.target, (ast.Tuple, ast.List)):
                            tt = [x for x in alts if x and x.startswith(("Tuple:", "Row:edgediff"))]
                        else:
                            tt = [x for x in alts if x and not x.startswith("Tuple:")]
                        changed |= self._bind(f, n.target, (tt or [t])[0])
                    elif isinstance(n, ast.With):
                        for it in n.items:
                            if it.optional_vars is not None:
                                changed |= self._bind(f, it.optional_vars, self.ty(f, it.context_expr))
                    elif isinstance(n, ast.Return) and n.value is not None:
                        t = self.ty(f, n.value)
                        if t and f not in self.ret:
                            self.ret[f] = t
                            changed = True
                        if t and t not in self.rets.setdefault(f, []):
                            self.rets[f].append(t)
                            changed = True
                    elif isinstance(n, ast.Call):
                        for tgt in self.repo.resolve_call(f, n):
                            if isinstance(tgt, ast.ClassDef):
                                mod = next(m.name for m in self.repo.mods.values() if m.classes.get(tgt.name) is tgt)
                                tgt = self.repo.class_init(tgt, mod)
                                is_method = True
                            else:
                                is_method = tgt is not None and tgt._cls is not None and not any(U(d) == "staticmethod" for d in tgt.decorator_list)
                            if tgt is None:
                                continue
                            for p, a in bind_args(n, tgt, method=is_method).items():
                                if p in ("*", "**"):
                                    continue
                                t = self.ty(f, a)
                                if t and p not in self.env[tgt]:
                                    self.env[tgt][p] = t
                                    changed = True
                                elif t and self.env[tgt][p] != t:
                                    self.conflicts.add((tgt._mod, tgt._qual, p, self.env[tgt][p], t))
            if not changed:
                return
        raise AnalysisError("E4 typing did not reach a fix-point")

    # -- access collection -------------------------------------------------------------------
    def accesses(self, f):
        """[(receiver type, attribute, kind, node)] with kind in load | call | store"""
        out = []
        calls = {id(n.func): n for n in own_nodes(f) if isinstance(n, ast.Call)}
        for n in own_nodes(f):
            if isinstance(n, ast.Attribute):
                bt = self.ty(f, n.value)
                if bt is None or bt.startswith(("Iter:", "Tuple:")):
                    continue
                kind = "call" if id(n) in calls else ("store" if isinstance(n.ctx, ast.Store) else "load")
                out.append((bt, n.attr, kind, n))
        return out


def classify(bt, attr):
    """class of an accessor on a tskit-typed receiver, or None when it is not in the table"""
    if bt == TS:
        for name, s in (("structural", STRUCTURAL_TS), ("monomorphic", MONOMORPHIC_TS), ("restricted", RESTRICTED_TS), ("individual", INDIVIDUAL_TS), ("irrelevant", IRRELEVANT_TS), ("other", TS_OTHER)):
            if attr in s:
                return name
        if "metadata" in attr or attr.endswith("_schema"):
            return "irrelevant"
        return None
    if bt == TREE:
        if attr in STRUCTURAL_TREE:
            return "structural"
        if attr in MONOMORPHIC_TREE:
            return "monomorphic"
        return None
    if bt.startswith("Row:"):
        k = bt[4:]
        if attr in ROW_STRUCTURAL.get(k, ()):
            return "structural"
        if attr in ROW_IRRELEVANT.get(k, ()):
            return "irrelevant" if not (k == "site" and attr == "mutations") else "monomorphic"
        return None
    if bt == TABLES:
        if attr in TABLES_MUTATORS:
            return "mutator"
        if attr in TABLES_READERS:
            return "reader"
        return None
    if bt.startswith("Table:"):
        if attr in TABLE_MUTATORS:
            return "mutator"
        return "column"
    return None
