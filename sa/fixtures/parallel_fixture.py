# positive fixture for R09.2: the matcher must flag every construct in this file on every run
import numba
from numba import prange

from .accelerate import numba_jit


@numba_jit(parallel=True)
def f(x):
    s = 0.0
    for i in prange(x.size):
        s += x[i]
    return s


@numba.njit(fastmath=True, nogil=True)
def g(x):
    return x + 1
