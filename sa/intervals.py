"""
Interprocedural interval propagation for *pure copies* of scalar parameters.

Used by C35 (R35.2): a public API parameter that reaches an ``assert`` unvalidated makes
the call fail with AssertionError instead of ValueError.  Values are tracked only through
pure copies (argument passing, ``x = y``, ``self.a = x``, defaults, module constants);
anything computed is UNKNOWN and never reported.  A value is a list of alternatives, one
per incoming flow (no join), so a finding always names one concrete flow.
"""

import ast
import math

from .base import U, bind_args, bool_guards, param_default, walk_guarded

INF = math.inf


class Iv:
    """one alternative: numeric interval + provenance"""

    __slots__ = ("lo", "los", "hi", "his", "nan", "kind", "src")

    def __init__(self, lo=-INF, los=False, hi=INF, his=False, nan=True, kind="api", src=""):
        self.lo, self.los, self.hi, self.his, self.nan, self.kind, self.src = lo, los, hi, his, nan, kind, src

    def copy(self, **kw):
        r = Iv(self.lo, self.los, self.hi, self.his, self.nan, self.kind, self.src)
        for k, v in kw.items():
            setattr(r, k, v)
        return r

    def key(self):
        return (self.lo, self.los, self.hi, self.his, self.nan, self.kind, self.src)

    def __repr__(self):
        if self.kind == "unknown":
            return "unknown"
        lo = ("(" if self.los else "[") + str(self.lo)
        hi = str(self.hi) + (")" if self.his else "]")
        return f"{self.kind}:{lo}, {hi}" + ("|nan" if self.nan else "") + (f" from {self.src}" if self.src else "")


def const(v, src=""):
    return Iv(v, False, v, False, False, "const", src)


UNKNOWN = Iv(kind="unknown")


def refine(iv, op, c, truth):
    """interval of x knowing that `x op c` evaluated to ``truth`` (NaN-aware)"""
    if iv.kind == "unknown":
        return iv
    r = iv.copy()
    if not truth:
        # the comparison was False: x is in the complement OR x is NaN
        neg = {">": "<=", ">=": "<", "<": ">=", "<=": ">", "==": "!=", "!=": "=="}[op]
        keep_nan = r.nan
        r = refine(iv, neg, c, True)
        r.nan = keep_nan
        return r
    r.nan = False if op != "!=" else r.nan
    if op == ">":
        if c > r.lo or (c == r.lo and not r.los):
            r.lo, r.los = c, True
    elif op == ">=":
        if c > r.lo:
            r.lo, r.los = c, False
    elif op == "<":
        if c < r.hi or (c == r.hi and not r.his):
            r.hi, r.his = c, True
    elif op == "<=":
        if c < r.hi:
            r.hi, r.his = c, False
    elif op == "==":
        r.lo, r.los, r.hi, r.his = max(r.lo, c), False, min(r.hi, c), False
    return r


def entails(iv, op, c):
    """does every value of the alternative satisfy `x op c` ?"""
    if iv.kind == "unknown":
        return None
    if iv.nan:
        return False
    if op == ">":
        return iv.lo > c or (iv.lo == c and iv.los)
    if op == ">=":
        return iv.lo >= c
    if op == "<":
        return iv.hi < c or (iv.hi == c and iv.his)
    if op == "<=":
        return iv.hi <= c
    if op == "==":
        return iv.lo == iv.hi == c
    if op == "!=":
        return iv.hi < c or iv.lo > c or (iv.hi == c and iv.his) or (iv.lo == c and iv.los)
    return None


OPS = {ast.Gt: ">", ast.GtE: ">=", ast.Lt: "<", ast.LtE: "<=", ast.Eq: "==", ast.NotEq: "!="}
FLIP = {">": "<", ">=": "<=", "<": ">", "<=": ">=", "==": "==", "!=": "!="}


def num(e):
    if isinstance(e, ast.Constant) and isinstance(e.value, (int, float)) and not isinstance(e.value, bool):
        return e.value
    if isinstance(e, ast.UnaryOp) and isinstance(e.op, ast.USub) and isinstance(e.operand, ast.Constant) and isinstance(e.operand.value, (int, float)):
        return -e.operand.value
    return None


def atoms_of(test):
    """[(name_expr_text, op, const)] for a test that is a conjunction of comparisons between
    one expression and numeric literals; None when the test has any other shape"""
    if isinstance(test, ast.BoolOp) and isinstance(test.op, ast.And):
        out = []
        for v in test.values:
            a = atoms_of(v)
            if a is None:
                return None
            out += a
        return out
    if isinstance(test, ast.Compare):
        out = []
        left = test.left
        for op, right in zip(test.ops, test.comparators):
            if type(op) not in OPS:
                return None
            o = OPS[type(op)]
            if num(right) is not None and num(left) is None:
                out.append((left, o, num(right)))
            elif num(left) is not None and num(right) is None:
                out.append((right, FLIP[o], num(left)))
            else:
                return None
            left = right
        return out
    return None


class Flow:
    def __init__(self, repo, cg, roots):
        self.repo = repo
        self.cg = cg
        self.roots = set(roots)
        self.reach = cg.reachable(roots)
        self.memo = {}
        self.busy = set()
        self.guards = {}  # FunctionDef -> {id(stmt): guards}
        self.callers = {}
        for g in self.reach:
            for n in _own_calls(g):
                tg = repo.resolve_call(g, n)
                if not tg and isinstance(n.func, ast.Attribute):
                    # method on an object of unknown class: same by-name resolution as the call graph
                    tg = [t for t in cg.methods_by_name.get(n.func.attr, []) if t in cg.edges.get(g, ())]
                for t in tg:
                    if isinstance(t, ast.ClassDef):
                        mod = next(m.name for m in repo.mods.values() if m.classes.get(t.name) is t)
                        t = repo.class_init(t, mod)
                    if t is not None and t in self.reach:
                        self.callers.setdefault(t, []).append((g, n))

    # -- statement lookup -----------------------------------------------------------------
    def stmt_guards(self, f):
        if f not in self.guards:
            m = {}
            for s, g in walk_guarded(f.body):
                for n in ast.walk(s):
                    m[id(n)] = (s, g)  # deeper statements come later and win
            self.guards[f] = m
        return self.guards[f]

    def guards_at(self, f, node):
        s_g = self.stmt_guards(f).get(id(node))
        return s_g[1] if s_g else ()

    # -- evaluation -------------------------------------------------------------------------
    def refine_by_guards(self, f, name_txt, alts, guards):
        out = []
        for iv in alts:
            r = iv
            for e, pol in bool_guards(guards):
                r = self._refine_test(r, name_txt, e, pol)
            out.append(r)
        return out

    def _refine_test(self, iv, name_txt, e, pol):
        if isinstance(e, ast.UnaryOp) and isinstance(e.op, ast.Not):
            return self._refine_test(iv, name_txt, e.operand, not pol)
        if isinstance(e, ast.BoolOp):
            if (isinstance(e.op, ast.And) and pol) or (isinstance(e.op, ast.Or) and not pol):
                for v in e.values:
                    iv = self._refine_test(iv, name_txt, v, pol)
            return iv
        a = atoms_of(e)
        if a is not None and len(a) == 1 and U(a[0][0]) == name_txt:
            return refine(iv, a[0][1], a[0][2], pol)
        if a is not None and pol:
            for x, op, c in a:
                if U(x) == name_txt:
                    iv = refine(iv, op, c, True)
        return iv

    def eval(self, f, e, at):
        """alternatives for expression ``e`` evaluated at node ``at`` of function ``f``"""
        g = self.guards_at(f, at)
        if num(e) is not None:
            return [const(num(e))]
        if isinstance(e, ast.Constant):
            return [UNKNOWN]
        if isinstance(e, ast.IfExp):
            return self.eval(f, e.body, at) + self.eval(f, e.orelse, at)
        if isinstance(e, ast.Name):
            alts = self.name_alts(f, e.id)
            return self.refine_by_guards(f, e.id, alts, g)
        if isinstance(e, ast.Attribute) and U(e.value) == "self" and f._cls:
            alts = self.attr_alts(f._mod, f._cls, e.attr)
            return self.refine_by_guards(f, U(e), alts, g)
        if isinstance(e, ast.Attribute) and isinstance(e.value, ast.Name):
            imp = self.repo.mods[f._mod].imports.get(e.value.id)
            if imp and imp[0] == "mod" and imp[1] in self.repo.mods:
                v = self.repo.mods[imp[1]].consts.get(e.attr)
                if v is not None and num(v) is not None:
                    return [const(num(v), f"{imp[1]}.{e.attr}")]
        return [UNKNOWN]

    def name_alts(self, f, name):
        key = ("name", f, name)
        if key in self.memo:
            return self.memo[key]
        if key in self.busy:
            return [UNKNOWN]
        self.busy.add(key)
        out = []
        is_param = name in [a.arg for a in f.args.posonlyargs + f.args.args + f.args.kwonlyargs]
        if is_param:
            out += self.param_alts(f, name)
        # local (re)bindings
        from .base import own_nodes

        bound = False
        for n in own_nodes(f):
            if isinstance(n, ast.Assign):
                for t in n.targets:
                    if isinstance(t, ast.Name) and t.id == name:
                        bound = True
                        out += self.eval(f, n.value, n)
                    elif isinstance(t, (ast.Tuple, ast.List)) and any(isinstance(x, ast.Name) and x.id == name for x in ast.walk(t)):
                        bound = True
                        out.append(UNKNOWN)
            elif isinstance(n, (ast.AugAssign, ast.For, ast.comprehension)) and any(isinstance(x, ast.Name) and x.id == name for x in ast.walk(n.target)):
                bound = True
                out.append(UNKNOWN)
        if not is_param and not bound:
            m = self.repo.mods[f._mod]
            v = m.consts.get(name)
            if v is not None and num(v) is not None:
                out.append(const(num(v), f"{f._mod}.{name}"))
            else:
                imp = m.imports.get(name)
                vv = None
                if imp and imp[0] == "sym" and imp[1] in self.repo.mods:
                    vv = self.repo.mods[imp[1]].consts.get(imp[2])
                # closure variable of an enclosing function
                if vv is None and "." in f._qual:
                    outer = m.funcs.get(f._qual.rsplit(".", 1)[0])
                    if outer is not None and outer is not f:
                        self.busy.discard(key)
                        r = self.name_alts(outer, name)
                        self.memo[key] = r
                        return r
                out.append(const(num(vv), name) if vv is not None and num(vv) is not None else UNKNOWN)
        self.busy.discard(key)
        out = _dedup(out)
        self.memo[key] = out
        return out

    def param_alts(self, f, p):
        key = ("param", f, p)
        if key in self.memo:
            return self.memo[key]
        if key in self.busy:
            return [UNKNOWN]
        self.busy.add(key)
        out = []
        if f in self.roots:
            out.append(Iv(kind="api", src=f"{f._mod}.{f._qual}({p})"))
        for g, call in self.callers.get(f, []):
            is_method = f._cls is not None and not any(U(d) == "staticmethod" for d in f.decorator_list)
            b = bind_args(call, f, method=is_method)
            if p in b:
                out += self.eval(g, b[p], call)
            elif "**" in b:
                # forwarded keyword pack: anything the public caller supplied
                src = self._kwargs_source(g)
                out.append(Iv(kind="api", src=f"{src}(**{U(b['**'])}: {p})") if src else UNKNOWN)
                d = param_default(f, p)
                if d is not None and num(d) is not None:
                    out.append(const(num(d), "default"))
            elif "*" in b:
                out.append(UNKNOWN)
            else:
                d = param_default(f, p)
                if d is not None and num(d) is not None:
                    out.append(const(num(d), "default"))
                elif d is not None:
                    out += self.eval(f, d, f) if not isinstance(d, ast.Constant) else [UNKNOWN]
                else:
                    out.append(UNKNOWN)
        if not out:
            out = [UNKNOWN]
        self.busy.discard(key)
        out = _dedup(out)
        self.memo[key] = out
        return out

    def _kwargs_source(self, g):
        """name of the public root whose **kwargs a function forwards (itself or transitively)"""
        if g.args.kwarg is None:
            return None
        if g in self.roots:
            return f"{g._mod}.{g._qual}"
        for h, _ in self.callers.get(g, []):
            s = self._kwargs_source(h)
            if s:
                return s
        return None

    def attr_alts(self, mod, cname, attr):
        key = ("attr", mod, cname, attr)
        if key in self.memo:
            return self.memo[key]
        if key in self.busy:
            return [UNKNOWN]
        self.busy.add(key)
        out = []
        from .base import own_nodes

        classes = self.repo.mro(mod, cname) + self.repo.subclasses(mod, cname)
        for mm, cc in classes:
            for q, f in self.repo.mods[mm].funcs.items():
                if q.startswith(cc + ".") and q.count(".") == 1:
                    for n in own_nodes(f):
                        if isinstance(n, ast.Assign):
                            for t in n.targets:
                                if isinstance(t, ast.Attribute) and U(t.value) == "self" and t.attr == attr:
                                    out += self.eval(f, n.value, n) if f in self.reach else [UNKNOWN]
                                elif isinstance(t, (ast.Tuple, ast.List)) and any(isinstance(x, ast.Attribute) and U(x) == f"self.{attr}" for x in ast.walk(t)):
                                    out.append(UNKNOWN)
        if not out:
            out = [UNKNOWN]
        self.busy.discard(key)
        out = _dedup(out)
        self.memo[key] = out
        return out


def _dedup(alts, cap=12):
    seen, out = set(), []
    for a in alts:
        if a.key() not in seen:
            seen.add(a.key())
            out.append(a)
    if len(out) > cap:
        out = out[:cap] + [UNKNOWN]
    return out


def _own_calls(f):
    from .base import own_nodes

    return [n for n in own_nodes(f) if isinstance(n, ast.Call)]
