"""driver: ./check <Cxx> [--tier quick|thorough] [--replay path] [--strict-selfval]"""

import argparse
import importlib
import json
import os
import sys
import traceback

from . import report
from .base import AnalysisError, Repo


def load_rules(pid):
    try:
        return importlib.import_module(f"sa.rules.{pid.lower()}")
    except ModuleNotFoundError as e:
        if e.name == f"sa.rules.{pid.lower()}":
            raise AnalysisError(f"no rules built for {pid}") from e
        raise


def analyse(pid, repo, tier="quick"):
    """run the rules of one property on a Repo; returns a Result (never exits)"""
    res = report.Result(pid, tier)
    mod = load_rules(pid)
    mod.run(repo, res)
    return res


def main(argv=None):
    ap = argparse.ArgumentParser()
    ap.add_argument("pid")
    ap.add_argument("--tier", default=os.environ.get("VERIF_TIER", "quick"), choices=["quick", "thorough"])
    ap.add_argument("--replay")
    ap.add_argument("--strict-selfval", action="store_true")
    ap.add_argument("--jobs", type=int, default=int(os.environ.get("VERIF_JOBS", "16")))
    a = ap.parse_args(argv)
    pid = a.pid.upper()
    seed = int(os.environ.get("VERIF_SEED", "0") or 0)
    res = report.Result(pid, a.tier)
    try:
        repo = Repo()
        res.analysed["modules"] = len(repo.mods)
        res.analysed["source_digest"] = repo.digest
        mod = load_rules(pid)
        mod.run(repo, res)
        if a.replay:
            with open(a.replay) as f:
                want = json.load(f)
            key = (want["rule"], want["construct"])
            hit = [v for v in res.violations() if (v["rule"], v["construct"]) == key]
            if hit:
                print(f"REPLAY: still violated: {hit[0]['loc']}: {key[0]} {key[1]}: {hit[0]['detail']}")
                print(f"VIOLATION property={pid} replay={a.replay}")
                return 1
            print(f"REPLAY: {key[0]} {key[1]} no longer violated")
            return 0
        known = {(k["rule"], k["construct"]) for k in report.load_known() if k.get("property") == pid and k.get("status") == "known"}
        if a.tier == "thorough" and not (res.keys() - known):
            from . import selfval

            res.selfval = selfval.run(pid, repo, res, jobs=a.jobs)
            if a.strict_selfval and res.selfval.get("failed"):
                raise AnalysisError(f"self-validation failed: {res.selfval['failed']}")
        return report.finish(res, seed)
    except AnalysisError as e:
        return report.finish(res, seed, error=str(e))
    except Exception as e:  # checker bug: never a VIOLATION
        traceback.print_exc()
        return report.finish(res, seed, error=f"checker crashed: {type(e).__name__}: {e}")


if __name__ == "__main__":
    sys.exit(main())
