"""
Canonicalisation of a module's AST before any rule looks at it, so that verdicts do not
depend on presentation:

  N1  `pass` statements are dropped from blocks that contain anything else
  N2  single-definition, single-use temporaries (`t = E` ... one later use of `t` in the same
      block, nothing in between that could change E) are substituted into their use
      (copy propagation); `_rv = E; return _rv` and `x = f(a, b)` with a pre-bound argument
      therefore look the same as the direct forms
  N3  renamed locals are mapped back to the names the rules were written against.  The role of
      a local is the *shape of its definitions and uses* with every local name abstracted
      (two rounds of Weisfeiler-Lehman refinement).  /verif/sa/refnames.json holds that shape
      signature for every local of every function of the pinned tree; a local whose name is
      unknown there but whose signature equals that of exactly one reference local missing
      from the current function is renamed to it.  The table is used only to recover names --
      never to judge code; a local that cannot be recovered keeps its name and the rules see it
      as it is.

  N4  an ordering comparison written the other way round is mirrored back, and
  N5  an `if not c: A else: B` is put back as `if c: B else: A`, when (and only when) the present
      form is unknown in the reference function and the mirrored form is known there (shape table
      in refnames.json, locals abstracted)
  N7  `logger.debug/info(...)` statements are dropped (warnings and errors are kept)

All are semantics-preserving rewrites of the analysed program text (nothing is executed).
"""

import ast
import copy
import hashlib
import json
import os

_REF = None


def _ref():
    global _REF
    if _REF is None:
        p = os.path.join(os.path.dirname(os.path.abspath(__file__)), "refnames.json")
        try:
            with open(p) as f:
                _REF = json.load(f)
        except OSError:
            _REF = {}
    return _REF


SCOPES = (ast.FunctionDef, ast.AsyncFunctionDef, ast.Lambda, ast.ClassDef, ast.ListComp, ast.SetComp, ast.DictComp, ast.GeneratorExp)
BLOCKS = ("body", "orelse", "finalbody")


def own(node):
    """nodes of a function excluding nested scopes' bodies (pre-order)"""
    todo = list(ast.iter_child_nodes(node))[::-1]
    while todo:
        n = todo.pop()
        yield n
        if isinstance(n, (ast.FunctionDef, ast.AsyncFunctionDef, ast.ClassDef, ast.Lambda)):
            continue
        todo.extend(list(ast.iter_child_nodes(n))[::-1])


def param_names(f):
    a = f.args
    out = [x.arg for x in a.posonlyargs + a.args + a.kwonlyargs]
    if a.vararg:
        out.append(a.vararg.arg)
    if a.kwarg:
        out.append(a.kwarg.arg)
    return set(out)


def uses_frame(f):
    return any(isinstance(n, ast.Call) and isinstance(n.func, ast.Name) and n.func.id in ("locals", "vars", "eval", "exec") for n in ast.walk(f))


def local_names(f):
    """names bound in f's own scope (not parameters, not declared global/nonlocal)"""
    out, decl = set(), set()
    for n in own(f):
        if isinstance(n, ast.Name) and isinstance(n.ctx, (ast.Store, ast.Del)):
            out.add(n.id)
        elif isinstance(n, (ast.Global, ast.Nonlocal)):
            decl |= set(n.names)
        elif isinstance(n, ast.ExceptHandler) and n.name:
            out.add(n.name)
        elif isinstance(n, (ast.FunctionDef, ast.ClassDef)):
            decl.add(n.name)  # nested def names are not renamed
        elif isinstance(n, (ast.Import, ast.ImportFrom)):
            for a in n.names:
                decl.add((a.asname or a.name).split(".")[0])
    # comprehension variables live in their own scope
    comp = set()
    for n in own(f):
        if isinstance(n, ast.comprehension):
            for x in ast.walk(n.target):
                if isinstance(x, ast.Name):
                    comp.add(x.id)
    stores_outside_comp = set()
    for n in own(f):
        if isinstance(n, (ast.Assign, ast.AugAssign, ast.AnnAssign, ast.For, ast.With, ast.NamedExpr)):
            tg = []
            if isinstance(n, ast.Assign):
                tg = n.targets
            elif isinstance(n, (ast.AugAssign, ast.AnnAssign, ast.For, ast.NamedExpr)):
                tg = [n.target]
            elif isinstance(n, ast.With):
                tg = [i.optional_vars for i in n.items if i.optional_vars is not None]
            for t in tg:
                for x in ast.walk(t):
                    if isinstance(x, ast.Name) and isinstance(x.ctx, ast.Store):
                        stores_outside_comp.add(x.id)
        elif isinstance(n, ast.ExceptHandler) and n.name:
            stores_outside_comp.add(n.name)
    out = (out & stores_outside_comp) | {x for x in out if x not in comp}
    return out - param_names(f) - decl


# ------------------------------------------------------------------------------ N1
def strip_pass(tree):
    for n in ast.walk(tree):
        for fld in BLOCKS:
            b = getattr(n, fld, None)
            if isinstance(b, list) and len(b) > 1 and all(isinstance(s, ast.stmt) for s in b):
                nb = [s for s in b if not isinstance(s, ast.Pass)]
                if nb and len(nb) != len(b):
                    setattr(n, fld, nb)
        if isinstance(n, ast.ExceptHandler) and len(n.body) > 1:
            nb = [s for s in n.body if not isinstance(s, ast.Pass)]
            if nb:
                n.body = nb


# ------------------------------------------------------------------------------ N2
def _names(e):
    return {x.id for x in ast.walk(e) if isinstance(x, ast.Name)}


def _has_call(e):
    return any(isinstance(x, (ast.Call, ast.Await, ast.Yield, ast.YieldFrom, ast.NamedExpr)) for x in ast.walk(e))


def _header_exprs(s):
    """expressions of statement ``s`` evaluated exactly once when control reaches it"""
    if isinstance(s, (ast.Assign, ast.AugAssign, ast.AnnAssign, ast.Return, ast.Expr, ast.Raise, ast.Assert, ast.Delete)):
        return [s]
    if isinstance(s, ast.If):
        return [s.test]
    if isinstance(s, ast.For):
        return [s.iter]
    if isinstance(s, ast.With):
        return [i.context_expr for i in s.items]
    return []


def _binds(s):
    """names (re)bound or mutated through a store by statement s (deep)"""
    out = set()
    for n in ast.walk(s):
        if isinstance(n, ast.Name) and isinstance(n.ctx, (ast.Store, ast.Del)):
            out.add(n.id)
        elif isinstance(n, (ast.Subscript, ast.Attribute)) and isinstance(n.ctx, (ast.Store, ast.Del)):
            b = n
            while isinstance(b, (ast.Subscript, ast.Attribute)):
                b = b.value
            if isinstance(b, ast.Name):
                out.add(b.id)
    return out


class _Subst(ast.NodeTransformer):
    def __init__(self, name, value):
        self.name, self.value, self.done = name, value, 0

    def visit_Name(self, n):
        if n.id == self.name and isinstance(n.ctx, ast.Load):
            self.done += 1
            return copy.deepcopy(self.value)
        return n


def inline_temps(f):
    if uses_frame(f):
        return 0
    total = 0
    changed = True
    while changed:
        changed = False
        locs = local_names(f)
        stores, loads, nested = {}, {}, set()
        for n in own(f):
            if isinstance(n, ast.Name):
                (stores if isinstance(n.ctx, (ast.Store, ast.Del)) else loads).setdefault(n.id, []).append(n)
            elif isinstance(n, ast.ExceptHandler) and n.name:
                stores.setdefault(n.name, []).append(n)
        for n in ast.walk(f):
            if n is not f and isinstance(n, (ast.FunctionDef, ast.AsyncFunctionDef, ast.Lambda, ast.ClassDef)):
                if isinstance(n, ast.ClassDef):
                    own_bound = set()
                elif isinstance(n, ast.Lambda):
                    own_bound = {a.arg for a in n.args.args + n.args.kwonlyargs}
                else:
                    own_bound = param_names(n) | local_names(n)
                for x in ast.walk(n):
                    if isinstance(x, ast.Name) and x.id not in own_bound:
                        nested.add(x.id)
        # comprehension bodies are nested scopes too, but reading an enclosing local there is fine
        # only when the read is in the first iterable; keep it simple: treat as nested
        for n in own(f):
            if isinstance(n, (ast.ListComp, ast.SetComp, ast.DictComp, ast.GeneratorExp)):
                for x in ast.walk(n):
                    if isinstance(x, ast.Name):
                        nested.add(x.id)
        for blk_owner in [f] + [n for n in own(f)]:
            for fld in BLOCKS:
                blk = getattr(blk_owner, fld, None)
                if not (isinstance(blk, list) and blk and isinstance(blk[0], ast.stmt)):
                    continue
                for i, s in enumerate(blk):
                    if not (isinstance(s, ast.Assign) and len(s.targets) == 1 and isinstance(s.targets[0], ast.Name)):
                        continue
                    t = s.targets[0].id
                    if t not in locs or t in nested:
                        continue
                    if len(stores.get(t, [])) != 1 or len(loads.get(t, [])) != 1:
                        # `t = E` immediately followed by `return <expr using t once>`: t is dead afterwards
                        # whatever other definitions it has elsewhere
                        nxt = blk[i + 1] if i + 1 < len(blk) else None
                        if isinstance(nxt, (ast.Return, ast.Raise)) and sum(isinstance(x, ast.Name) and x.id == t for x in ast.walk(nxt)) == 1 and not any(isinstance(x, ast.Name) and x.id == t for x in ast.walk(s.value)):
                            sub = _Subst(t, s.value)
                            blk[i + 1] = sub.visit(nxt)
                            if sub.done == 1:
                                del blk[i]
                                total += 1
                                changed = True
                                break
                        continue
                    use = loads[t][0]
                    E = s.value
                    if isinstance(E, (ast.Lambda, ast.Yield, ast.YieldFrom, ast.Await)):
                        continue
                    en = _names(E)
                    for j in range(i + 1, len(blk)):
                        s2 = blk[j]
                        hdr = _header_exprs(s2)
                        if any(use is x for h in hdr for x in ast.walk(h)):
                            # the single use is evaluated once at statement j
                            if isinstance(s2, ast.AugAssign) and any(use is x for x in ast.walk(s2.target)):
                                break
                            sub = _Subst(t, E)
                            if isinstance(s2, ast.If):
                                s2.test = sub.visit(s2.test)
                            elif isinstance(s2, ast.For):
                                s2.iter = sub.visit(s2.iter)
                            elif isinstance(s2, ast.With):
                                for it in s2.items:
                                    it.context_expr = sub.visit(it.context_expr)
                            else:
                                blk[j] = sub.visit(s2)
                            if sub.done == 1:
                                del blk[i]
                                total += 1
                                changed = True
                            break
                        # statement j lies between the definition and the use
                        if any(use is x for x in ast.walk(s2)):
                            break  # use is inside a compound body: different execution count
                        if (_binds(s2) & (en | {t})) or (_has_call(E) and _has_call(s2)) or (_has_call(s2) and en - {x for x in en if x in locs or x in param_names(f)}):
                            break
                        if isinstance(s2, (ast.Return, ast.Raise, ast.Break, ast.Continue)):
                            break
                    if changed:
                        break
                if changed:
                    break
            if changed:
                break
    return total


# ------------------------------------------------------------------------------ N3
def _abstract(node, mapping, me=None):
    """text of node with local names replaced via mapping (name -> token)"""

    class T(ast.NodeTransformer):
        shadow = ()

        def visit_Name(self, n):
            if n.id in self.shadow:
                return ast.Name("C_", n.ctx)  # comprehension / lambda variable: its own scope
            if n.id == me:
                return ast.Name("SELF__", n.ctx)
            if n.id in mapping:
                return ast.Name(mapping[n.id], n.ctx)
            return n

        def _comp(self, n):
            bound = {x.id for g in n.generators for x in ast.walk(g.target) if isinstance(x, ast.Name)}
            first = n.generators[0].iter
            n.generators[0].iter = self.visit(first)
            old, self.shadow = self.shadow, tuple(set(self.shadow) | bound)
            for i, g in enumerate(n.generators):
                g.target = self.visit(g.target)
                if i:
                    g.iter = self.visit(g.iter)
                g.ifs = [self.visit(x) for x in g.ifs]
            if isinstance(n, ast.DictComp):
                n.key, n.value = self.visit(n.key), self.visit(n.value)
            else:
                n.elt = self.visit(n.elt)
            self.shadow = old
            return n

        visit_ListComp = visit_SetComp = visit_GeneratorExp = visit_DictComp = _comp

        def visit_Lambda(self, n):
            bound = {a.arg for a in n.args.args + n.args.kwonlyargs}
            old, self.shadow = self.shadow, tuple(set(self.shadow) | bound)
            n.body = self.visit(n.body)
            self.shadow = old
            for a in n.args.args + n.args.kwonlyargs:
                a.arg = "C_"
            return n

        def visit_FunctionDef(self, n):
            return ast.Pass()

        def visit_Constant(self, n):
            if isinstance(n.value, str) and len(n.value) > 40:
                return ast.Constant("S")
            return n

    t = T().visit(copy.deepcopy(node))
    try:
        return ast.unparse(t)
    except Exception:
        return ast.dump(t)


def _stmt_headers(f):
    """(statement-or-header node) list for feature extraction"""
    out = []
    for n in own(f):
        if isinstance(n, (ast.Assign, ast.AugAssign, ast.AnnAssign, ast.Return, ast.Expr, ast.Raise, ast.Assert, ast.Delete)):
            out.append(n)
        elif isinstance(n, (ast.If, ast.While)):
            out.append(n.test)
        elif isinstance(n, ast.For):
            out.append(ast.Tuple([n.target, n.iter], ast.Load()))
        elif isinstance(n, ast.With):
            for it in n.items:
                out.append(ast.Tuple([it.context_expr] + ([it.optional_vars] if it.optional_vars is not None else []), ast.Load()))
    return out


def _free_names(e):
    """names read/written in the enclosing function scope (comprehension and lambda variables excluded)"""
    out = set()

    def walk(n, shadow):
        if isinstance(n, ast.Name):
            if n.id not in shadow:
                out.add(n.id)
            return
        if isinstance(n, (ast.ListComp, ast.SetComp, ast.GeneratorExp, ast.DictComp)):
            bound = {x.id for g in n.generators for x in ast.walk(g.target) if isinstance(x, ast.Name)}
            walk(n.generators[0].iter, shadow)
            sh = shadow | bound
            for i, g in enumerate(n.generators):
                if i:
                    walk(g.iter, sh)
                for x in g.ifs:
                    walk(x, sh)
            for x in ([n.key, n.value] if isinstance(n, ast.DictComp) else [n.elt]):
                walk(x, sh)
            return
        if isinstance(n, ast.Lambda):
            walk(n.body, shadow | {a.arg for a in n.args.args + n.args.kwonlyargs})
            return
        if isinstance(n, (ast.FunctionDef, ast.AsyncFunctionDef, ast.ClassDef)):
            return
        for c in ast.iter_child_nodes(n):
            walk(c, shadow)

    walk(e, frozenset())
    return out


def private_params(f):
    """positional parameters of private (underscore-named) functions: part of no public interface, so a
    rename is a presentation change like that of a local"""
    if not (f.name.startswith("_") and not f.name.startswith("__")):
        return set()
    return {a.arg for a in f.args.posonlyargs + f.args.args if a.arg not in ("self", "cls")}


def role_names(f):
    return local_names(f) | private_params(f)


def signatures(f, rounds=2):
    locs = role_names(f)
    if not locs:
        return {}
    heads = _stmt_headers(f)
    pp = private_params(f)
    if pp:  # the parameter list itself is a feature (position of each parameter)
        heads = [ast.Tuple([ast.Name(a.arg, ast.Load()) for a in f.args.posonlyargs + f.args.args], ast.Load())] + heads
    involve = {v: [] for v in locs}
    for h in heads:
        for v in _free_names(h) & locs:
            involve[v].append(h)
    mapping = {v: "L_" for v in locs}
    sig = {}
    for r in range(rounds + 1):
        new = {}
        for v in locs:
            feats = sorted(_abstract(h, mapping, me=v) for h in involve[v])
            new[v] = hashlib.sha1("\n".join(feats).encode()).hexdigest()[:12]
        sig = new
        mapping = {v: "L" + sig[v] for v in locs}
    return sig


def recover_names(f, modname, qual, stats=None):
    ref = _ref().get(modname, {}).get(qual)
    if not ref or uses_frame(f):
        return {}
    locs = role_names(f)
    new_cur = locs - set(ref)
    missing = set(ref) - locs
    if not new_cur or not missing:
        return {}
    sig = signatures(f)
    by_sig_ref = {}
    for r in missing:
        by_sig_ref.setdefault(ref[r], []).append(r)
    by_sig_cur = {}
    for n in new_cur:
        by_sig_cur.setdefault(sig[n], []).append(n)
    ren = {}
    for s, cs in by_sig_cur.items():
        rs = by_sig_ref.get(s, [])
        if len(cs) == 1 and len(rs) == 1:
            ren[cs[0]] = rs[0]
    if not ren:
        return {}
    def bound_in(n):
        b = param_names(n) if not isinstance(n, ast.Lambda) else {a.arg for a in n.args.args + n.args.kwonlyargs}
        if not isinstance(n, ast.Lambda):
            b |= local_names(n)
        return b

    def nested(n):
        return [x for x in own(n) if isinstance(x, (ast.FunctionDef, ast.AsyncFunctionDef, ast.Lambda))]

    # a nested scope in which the old name is free must not bind the new name itself
    def conflicts(scope, k):
        for n in nested(scope):
            b = bound_in(n)
            if k in b:
                continue  # shadowed: the nested scope has its own variable of that name
            if not any(isinstance(x, ast.Name) and x.id == k for x in ast.walk(n)):
                continue  # the nested scope never reads the variable
            if ren[k] in b or conflicts(n, k):
                return True
        return False

    for k in list(ren):
        if conflicts(f, k):
            del ren[k]

    def apply(scope, active):
        if scope is f:
            for a in f.args.posonlyargs + f.args.args:
                if a.arg in active:
                    a.arg = active[a.arg]
        for n in own(scope):
            if isinstance(n, ast.Name) and n.id in active:
                n.id = active[n.id]
            elif isinstance(n, ast.ExceptHandler) and n.name in active:
                n.name = active[n.name]
        for n in nested(scope):
            b = bound_in(n)
            inner = {k: v for k, v in active.items() if k not in b}
            if inner:
                apply(n, inner)

    if ren:
        apply(f, ren)
    return ren


# ------------------------------------------------------------------------------ N7
LOG_FUNCS = {"logger.debug", "logger.info", "logging.debug", "logging.info"}


def strip_logging(tree):
    """progress / trace logging (`logger.debug`, `logger.info`) carries no behaviour the properties
    speak about; warnings and errors are kept (R32.1 counts them as effects)"""
    n = 0
    for node in ast.walk(tree):
        for fld in BLOCKS:
            b = getattr(node, fld, None)
            if isinstance(b, list) and len(b) > 1 and all(isinstance(s, ast.stmt) for s in b):
                nb = [s for s in b if not (isinstance(s, ast.Expr) and isinstance(s.value, ast.Call) and ast.unparse(s.value.func) in LOG_FUNCS)]
                if nb and len(nb) != len(b):
                    n += len(b) - len(nb)
                    setattr(node, fld, nb)
        if isinstance(node, ast.ExceptHandler) and len(node.body) > 1:
            nb = [s for s in node.body if not (isinstance(s, ast.Expr) and isinstance(s.value, ast.Call) and ast.unparse(s.value.func) in LOG_FUNCS)]
            if nb:
                node.body = nb
    return n


# ------------------------------------------------------------------------------ N4 / N5
FLIP = {ast.Lt: ast.Gt, ast.Gt: ast.Lt, ast.LtE: ast.GtE, ast.GtE: ast.LtE}


def _shape(e, locs):
    return _abstract(e, {v: "L_" for v in locs})


def shapes(f):
    """abstracted texts of the ordering comparisons and of the if-tests of a function"""
    locs = role_names(f)
    cmp_, ifs = [], []
    for n in own(f):
        if isinstance(n, ast.Compare) and len(n.ops) == 1 and type(n.ops[0]) in FLIP:
            cmp_.append(_shape(n, locs))
        if isinstance(n, ast.If):
            ifs.append(_shape(n.test, locs))
    return {"cmp": sorted(set(cmp_)), "if": sorted(set(ifs))}


def restore_shapes(f, modname, qual):
    """a comparison written the other way round (`b > a` for `a < b`) or an if/else written with the
    negated test and swapped branches is put back the way the reference tree writes it -- only when
    the present form is unknown in the reference function and the mirrored form is known there"""
    ref = _ref().get("__shapes__", {}).get(modname, {}).get(qual)
    if not ref:
        return 0
    locs = role_names(f)
    rc, ri = set(ref["cmp"]), set(ref["if"])
    done = 0
    for n in own(f):
        if isinstance(n, ast.Compare) and len(n.ops) == 1 and type(n.ops[0]) in FLIP:
            if _shape(n, locs) in rc:
                continue
            m = ast.Compare(left=n.comparators[0], ops=[FLIP[type(n.ops[0])]()], comparators=[n.left])
            if _shape(m, locs) in rc:
                n.left, n.ops, n.comparators = m.left, m.ops, m.comparators
                done += 1
    for n in own(f):
        if isinstance(n, ast.If) and n.orelse and isinstance(n.test, ast.UnaryOp) and isinstance(n.test.op, ast.Not):
            if _shape(n.test, locs) in ri:
                continue
            if _shape(n.test.operand, locs) in ri and not (len(n.body) == 1 and isinstance(n.body[0], ast.If) and False):
                n.test, n.body, n.orelse = n.test.operand, n.orelse, n.body
                done += 1
    return done


# ------------------------------------------------------------------------------ driver
def functions(tree):
    """(qualname, FunctionDef) in the same naming as base.Mod.funcs, outermost first"""
    out = []

    def visit(body, prefix):
        for n in body:
            if isinstance(n, (ast.FunctionDef, ast.AsyncFunctionDef)):
                q = prefix + n.name
                out.append((q, n))
                for sub in own(n):
                    if isinstance(sub, (ast.FunctionDef, ast.AsyncFunctionDef)):
                        visit([sub], q + ".")
            elif isinstance(n, ast.ClassDef):
                visit(n.body, prefix + n.name + ".")

    visit(tree.body, "")
    return out


def normalise(tree, modname, names=True):
    info = {"pass_stripped": 0, "temps_inlined": 0, "renamed": {}, "logging_stripped": 0, "shapes_restored": 0}
    info["logging_stripped"] = strip_logging(tree)
    strip_pass(tree)
    fs = functions(tree)
    for q, f in fs:
        info["temps_inlined"] += inline_temps(f)
    if names:
        for q, f in fs:
            ren = recover_names(f, modname, q)
            if ren:
                info["renamed"][q] = ren
        for q, f in fs:
            info["shapes_restored"] += restore_shapes(f, modname, q)
    ast.fix_missing_locations(tree)
    return info


def reference_table(trees):
    """{module: {qualname: {local: signature}}} for refnames.json (trees already N1/N2-normalised)"""
    out = {"__shapes__": {}}
    for modname, tree in trees.items():
        d, sh = {}, {}
        for q, f in functions(tree):
            s = signatures(f)
            if s:
                d[q] = s
            x = shapes(f)
            if x["cmp"] or x["if"]:
                sh[q] = x
        out[modname] = d
        out["__shapes__"][modname] = sh
    return out
