"""
E5 -- enumeration of abstract paths through one function.

Branch conditions are free boolean atoms unless ``fold`` decides them; the same
condition text is decided consistently along a path as long as none of the names it
mentions is re-bound in between.  Loops are taken 0 or 1 times.  ``try`` bodies may fault
at every top-level statement that contains a call (the faulting statement contributes no
events).  The result is a list of Path objects carrying the ordered events (simple
statements, and ('test', expr, polarity) markers).
"""

import ast

from .base import AnalysisError, U, names_in, store_targets


class Path:
    __slots__ = ("events", "decided", "exit", "node")

    def __init__(self, events=(), decided=None, exit="fall", node=None):
        self.events = list(events)
        self.decided = dict(decided or {})
        self.exit = exit
        self.node = node

    def fork(self):
        return Path(self.events, self.decided, self.exit, self.node)

    def conds(self):
        return [e for e in self.events if isinstance(e, tuple) and e[0] == "test"]

    def stmts(self):
        return [e for e in self.events if not isinstance(e, tuple)]

    def calls(self):
        """Call nodes in execution order (approximately: statement order, inner first)"""
        out = []
        for e in self.events:
            node = e[1] if isinstance(e, tuple) and e[0] == "test" else e
            if isinstance(node, tuple):
                continue
            cs = [n for n in ast.walk(node) if isinstance(n, ast.Call)]
            cs.sort(key=lambda c: (c.end_lineno, c.end_col_offset))
            out.extend(cs)
        return out


def _bound_names(s):
    out = set()
    for t in store_targets(s):
        if isinstance(t, ast.Name):
            out.add(t.id)
        else:
            # a store through subscript/attribute may change what a test on the base sees
            b = t
            while isinstance(b, (ast.Subscript, ast.Attribute)):
                b = b.value
            if isinstance(b, ast.Name):
                out.add(b.id)
    if isinstance(s, (ast.For,)):
        out |= names_in(s.target)
    return out


class Enumerator:
    def __init__(self, fold=None, max_paths=20000, may_raise=None):
        self.fold = fold
        self.max_paths = max_paths
        self.may_raise = may_raise or (lambda s: any(isinstance(n, (ast.Call, ast.Raise)) for n in ast.walk(s)))

    def run(self, body):
        out = self.block(body, [Path()])
        return out

    # -- helpers ----------------------------------------------------------------------
    def _check(self, paths):
        if len(paths) > self.max_paths:
            raise AnalysisError(f"path explosion (> {self.max_paths} abstract paths)")

    def decide(self, p, test):
        """return list of (path, polarity) continuations for a branch on ``test``"""
        if isinstance(test, ast.UnaryOp) and isinstance(test.op, ast.Not):
            return [(q, not pol) for q, pol in self.decide(p, test.operand)]
        txt = U(test)
        if txt in p.decided:
            v = p.decided[txt]
            q = p.fork()
            q.events.append(("test", test, v))
            return [(q, v)]
        v = self.fold(test, p) if self.fold else None
        outs = []
        for pol in (True, False) if v is None else (v,):
            q = p.fork()
            q.decided[txt] = pol
            q.events.append(("test", test, pol))
            outs.append((q, pol))
        return outs

    def _invalidate(self, p, s):
        b = _bound_names(s)
        if not b:
            return
        for k in list(p.decided):
            try:
                nm = names_in(ast.parse(k, mode="eval"))
            except SyntaxError:
                nm = set()
            if nm & b:
                del p.decided[k]

    # -- statements -------------------------------------------------------------------
    def block(self, body, paths):
        for s in body:
            live = [p for p in paths if p.exit == "fall"]
            done = [p for p in paths if p.exit != "fall"]
            if not live:
                return done
            paths = done + self.stmt(s, live)
            self._check(paths)
        return paths

    def stmt(self, s, live):
        out = []
        if isinstance(s, ast.If):
            for p in live:
                for q, pol in self.decide(p, s.test):
                    out.extend(self.block(s.body if pol else s.orelse, [q]))
            return out
        if isinstance(s, (ast.For, ast.While)):
            for p in live:
                # zero iterations
                if isinstance(s, ast.While):
                    conts = self.decide(p, s.test)
                else:
                    z = p.fork()
                    z.events.append(("loop0", s))
                    o = p.fork()
                    o.events.append(("loop1", s))
                    self._invalidate(o, s)
                    conts = [(z, False), (o, True)]
                for q, pol in conts:
                    if not pol:
                        out.extend(self.block(s.orelse, [q]))
                        continue
                    for r in self.block(s.body, [q]):
                        if r.exit in ("fall", "continue"):
                            r.exit = "fall"
                            r.events.append(("loopend", s))
                            # names tested inside the loop may differ afterwards
                            out.extend(self.block(s.orelse, [r]))
                        elif r.exit == "break":
                            r.exit = "fall"
                            r.events.append(("loopend", s))
                            out.append(r)
                        else:
                            out.append(r)
            return out
        if isinstance(s, ast.With):
            for p in live:
                q = p.fork()
                q.events.append(("with", s))
                out.extend(self.block(s.body, [q]))
            return out
        if isinstance(s, ast.Try):
            for p in live:
                # normal completion
                normal = self.block(s.body, [p.fork()])
                for r in normal:
                    if r.exit == "fall":
                        out.extend(self.block(s.finalbody, self.block(s.orelse, [r])))
                    else:
                        out.append(r)
                # faults
                if s.handlers:
                    prefix = [p.fork()]
                    for t in s.body:
                        if self.may_raise(t):
                            for q in prefix:
                                if q.exit != "fall":
                                    continue
                                for h in s.handlers:
                                    f = q.fork()
                                    f.events.append(("exc", t, h))
                                    for r in self.block(h.body, [f]):
                                        if r.exit == "fall":
                                            out.extend(self.block(s.finalbody, [r]))
                                        else:
                                            out.append(r)
                        prefix = [q for q in self.block([t], [x.fork() for x in prefix if x.exit == "fall"])]
            return out
        # simple statements
        for p in live:
            q = p.fork()
            q.events.append(s)
            if isinstance(s, ast.Return):
                q.exit, q.node = "return", s
            elif isinstance(s, ast.Raise):
                q.exit, q.node = "raise", s
            elif isinstance(s, ast.Break):
                q.exit, q.node = "break", s
            elif isinstance(s, ast.Continue):
                q.exit, q.node = "continue", s
            elif isinstance(s, ast.Assert):
                q.decided[U(s.test)] = True
            elif isinstance(s, ast.Expr) and isinstance(s.value, ast.Call) and U(s.value.func) in ("error_exit", "sys.exit", "exit"):
                q.exit, q.node = "raise", s
            else:
                self._invalidate(q, s)
            out.append(q)
        return out


def enum_paths(f_or_body, fold=None, max_paths=20000, may_raise=None):
    body = f_or_body.body if isinstance(f_or_body, (ast.FunctionDef,)) else f_or_body
    paths = Enumerator(fold, max_paths, may_raise).run(body)
    for p in paths:
        if p.exit in ("break", "continue"):
            raise AnalysisError("break/continue outside loop")
    return paths
