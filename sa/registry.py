"""Per-property registration data used to generate MANIFEST.json (tools/mkmanifest.py)."""

NOT_APPLICABLE = {
    "C14": "exact Kingman moments are a numerical identity of a recursion over all (n, k); no structural clause is a necessary condition, and evaluating the recursion symbolically or numerically is another technique family",
    "C15": "exactness of the incremental edge-diff span bookkeeping depends on runtime tree shapes; no clause of it is visible in the shape of the code",
    "C17": "integrals, inverses and moment matching of the population-size transforms are analytic identities; only their dimensional consistency is static (covered under C06)",
    "C19": "accuracy of series cut-offs and Newton iterations is purely numerical",
    "C20": "exactness of EP in the conjugate case is a closed-form numerical identity of the whole pipeline; its structural support (message bookkeeping, cap pairing) is what C21/C05 check",
    "C25": "monotonicity and continuity of the fitted piecewise-linear map depend on runtime breakpoints; the pass-through of fixed nodes and the cap wiring are covered by C03/C05",
    "C26": "optimality of a dynamic programme and the searchsorted boundary rule quantify over runtime arrays; exhaustive testing or proof, not static analysis, settles them",
}

# pid -> dict(text, note, technique, ref)
CHECKS = {}


def reg(pid, text, note, technique, ref):
    CHECKS[pid] = dict(text=text, note=note, technique=technique, ref=ref)


reg(
    "C37",
    "Decides two structural clauses: (R37.1) every argument passed from rescale_tree_sequence to its numba kernels has the array type the kernel's explicit signature requires (a definite mismatch makes the function raise TypeError for every input); (R37.2) mutation times are the midpoint of the end nodes of the mutation's edge, overwritten by the node's own time under the edge==NULL mask, sample mask forwarded, tables pipeline ordered. Does not decide monotonicity of the fitted map.",
    "Trusted: table of tskit/numpy array types and numba dispatch rules in sa/e2.py (probed once at design time); CPython ast.",
    "abstract array-type inference at kernel call sites vs. parsed numba signatures; def-use origin rules",
    "DESIGN.md §2 C37, §1 E2",
)

reg(
    "C24",
    "Decides structural clauses only: (R24.1) every branch of count_mutations agrees with the kernel's size contract (node-id-indexed arrays are dimensioned by the mask's size, so the mask must have ts.num_nodes entries; a branch asserting otherwise is a contradiction that rejects every valid explicit mask); (R24.2) kernel call sites type-conform and mutation_span_array tallies only non-NULL edges; (R24.3) the explicit sample mask and size_biased reach the kernel unchanged; (R24.4) the kernel credits the edge above the mutation's own node, guarded by edge != NULL, weighted by the sample count iff size_biased. Exactness of the tallies is not decided.",
    "Trusted: E2 type tables; the recognised shapes of facts (np.full(N,..), assert X.size == N).",
    "contract/contradiction rule on size facts per branch; E2 signature conformance; def-use wiring; guard rules",
    "DESIGN.md §2 C24",
)
reg(
    "C38",
    "Decides the opacity clause: the node whose messages are skipped under ignore_oldest_root must be selected from node times (argmax/max), never from a count such as num_nodes; plus wiring of the flag and that the branch only skips. Today's tree violates it (known finding, pinned by an existing test).",
    "Trusted: classification of count-derived vs. time-derived expressions by the names they are built from after inlining locals and self attributes.",
    "origin classification (count-derived vs time-derived) of the operand compared with a node id under the flag's control dependence",
    "DESIGN.md §2 C38",
)

reg(
    "C36",
    "Decides the crash-safety protocol structurally: no write goes straight to the cache file name; the write goes to a per-writer-unique temporary (mkstemp/NamedTemporaryFile) created in the cache directory and is published by os.replace only after the file is closed/flushed, on the success path; the reader validates shape or relies on the atomic publish; the returned table is the array written. Filesystem semantics of os.replace are assumed.",
    "Trusted: POSIX atomic rename within one directory; the list of writer/opener/reader call names in sa/rules/c36.py.",
    "taint from get_precalc_cache() to file-writing calls; typestate write < close/flush < os.replace; def-use",
    "DESIGN.md §2 C36",
)
reg(
    "C34",
    "Decides option wiring: every parser dest is, on every runner path reaching the API call, either passed as a pure copy under a related keyword that the selected API function accepts, or rejected by an error_exit guard; boolean options are switchable both ways; --method choices equal the registry; the single dump(args.output) is the last effect and dumps the API result. Byte equality of output is not decided. One known finding (--epsilon dropped for variational_gamma, pinned by a test).",
    "Trusted: argparse dest derivation rules; recognised dict()/dict-literal keyword packs.",
    "argparse declaration extraction + path enumeration of the runners + keyword/parameter matching against API signatures",
    "DESIGN.md §2 C34",
)

reg(
    "C01",
    "Decides structural clauses: (R01.1) every return path of get_modified_ts stores node times produced by constrain_ages with the caller's validated min_branch_length and constr_iterations, and every method returns through it; (R01.2) typestate of the output tables (column writes < sort < build_index < compute_mutation_parents < compute_mutation_times < tree_sequence, mutation times reset first, same object returned); (R01.3) shape of the forced pass; (R01.4) a four-rule floating-point-sound order calculus derives parent > child and parent >= child (+) eps after the forced store and on its skip branch. Validity of the rest of the tables (tskit's job) and the least-squares phase are not decided.",
    "Trusted: tskit sorts edges by parent time (one-pass argument); IEEE-754 monotone rounding for the calculus; path enumeration treats loops as 0/1 iterations.",
    "must-pass-through over enumerated paths, typestate automaton, symbolic order derivation on the store/guard shapes",
    "DESIGN.md §2 C01",
)
reg(
    "C23",
    "Decides: (R23.1) in reallocate_unphased each singleton contributes phi to the first and 1-phi to the second edge of its own block row, together, into the count column, after zeroing exactly the unphased edges; (R23.2) orientation typestate of the phase vector in infer: the placement rule and rescale (-> reallocate_unphased) consume the block-oriented vector on every path before the statement that flips it to the placed edge. The phase probabilities themselves are not decided.",
    "Trusted: recognised flip statement shape `phase[m] = 1 - phase[m]`; path enumeration with loops 0/1.",
    "pairing rule on increments; typestate (orientation) over enumerated paths of infer with method effect summaries",
    "DESIGN.md §2 C23",
)
reg(
    "C35",
    "Decides: (R35.1) each invalid parameter class named in the statement is rejected by a ValueError/NotImplementedError guard in the shared constructor or method entry; (R35.2) NaN-aware interprocedural interval propagation of pure copies of public parameters shows every literal-comparison assert on the API call graph is implied on each flow (else AssertionError escapes); (R35.3) no definite numba-signature mismatch at kernel call sites reachable from the API; (R35.4) documented result shape and exception types of the entry layer. Reachability of data-dependent internal assertions and exceptions raised inside tskit/numba are not decided.",
    "Trusted: call graph over-approximation (class hierarchy by name); E2 tables; only pure copies are tracked, computed values are 'unknown' and never reported.",
    "guard recognition + interprocedural interval analysis over the call graph + E2 signature conformance",
    "DESIGN.md §2 C35",
)

reg(
    "C06",
    "Decides dimensional homogeneity in the time unit: a units-of-measure abstract interpretation (E3) of the three dating pipelines from the public wrappers down to the numba kernels and the output assembly shows that every dimension-constraining operation (add/sub, comparison, min/max, where, append, searchsorted, exp/lgamma/pmf/cdf arguments, typed stores) is consistent in T and that the outputs carry the declared time dimension; by the Buckingham argument such a program computes a function homogeneous of the declared degree, so a hard-coded absolute threshold, unscaled epsilon or regularisation constant is reported at the offending expression. Floating-point tolerance of the equivariance, iteration counts and the internals of scipy/tskit are not decided.",
    "Trusted: dimension seeds of the public parameters and tskit attributes (sa/e3run.py), dimension signatures of numpy/scipy functions (sa/e3.py), the cache table columns being dimensionless; unknown values are TOP and never reported. One reviewed site is suppressed by name (BeliefPropagation.__init__ allclose on grids, error path only).",
    "abstract interpretation over a units-of-measure lattice (flow- and context-sensitive, interprocedural), plus output-dimension oracle",
    "DESIGN.md §1 E3, §2 C06",
)
reg(
    "C07",
    "Same abstract interpretation with the genome-length unit L: edge coordinates, site positions, spans and sequence length carry L, the mutation rate 1/(T L); decides that spans occur only multiplied by the rate or as ratios/weights, and that every fitted quantity and output has L-exponent 0. Numerical tolerance is not decided.",
    "Trusted: as C06.",
    "abstract interpretation over a units-of-measure lattice (second base unit), plus output-dimension oracle",
    "DESIGN.md §2 C07",
)

reg(
    "C08",
    "Decides the information-flow clause: in every function reachable from the dating API (output assembly excluded) the input tree sequence is read only through accessors classified structural; none classified irrelevant data (metadata, schemas, allele states, populations, provenance, migrations, mutation times/parents, table collections), none that enumerate monomorphic sites; site positions only at mutations; individual linkage only behind the unphased mask, which is the negated singletons_phased flag. That tskit's structural accessors themselves ignore metadata is assumed.",
    "Trusted: the accessor classification table (sa/e4.py, design appendix A1) and the E4 typing of tskit values; an accessor missing from the table fails closed (exit 2).",
    "tskit-value typing + accessor classification over the call graph (who-may-read), control-dependence on the unphased mask",
    "DESIGN.md §2 C08, §1 E4",
)
reg(
    "C02",
    "Decides who-may-write: every store or mutator call on the output TableCollection/tables anywhere on the dating call graph is in an allow-list (time_units, nodes.time, mutations.node/time/parent, sort/build_index/compute_mutation_parents/compute_mutation_times in get_modified_ts, time-metadata writers on the node and mutation tables only in set_time_metadata, one provenance row); and the stored mutation nodes are the input's column for the discrete methods, and for variational_gamma a copy rewritten only under the unphased-singleton mask. That TableCollection.sort preserves the set of rows is tskit's.",
    "Trusted: E4 typing and mutator table; call graph over-approximation.",
    "who-may-write over tskit-typed receivers + def-use origin rules through the Results record",
    "DESIGN.md §2 C02",
)
reg(
    "C29",
    "Decides copy-completeness and ownership: the node table is rebuilt with every node column permuted by the same order index; the split flag is OR-ed exactly at the split nodes; metadata key encoded through the table's schema with failure downgraded to a warning; only edges.parent/child, mutations.node and node columns are written; kernel call sites type-conform. That local trees and genotypes are preserved and the operation is idempotent is algorithmic and not decided.",
    "Trusted: list of tskit node-table columns; E2/E4 tables.",
    "column-completeness rule on set_columns, who-may-write, def-use, E2 signature conformance",
    "DESIGN.md §2 C29",
)
reg(
    "C22",
    "Decides structural clauses: mutation nodes/edges are rewritten only under the mutation_blocks != NULL mask, to the child of one of the two edges of the mutation's own block; _block_singletons touches per-individual state only for unphased individuals of the edge's/mutation's own node; singletons_phased reaches the mask unchanged (negated); diploid/contemporary checks only under the mask. Invariance of the result to the input split is numerical and not decided.",
    "Trusted: recognised np.where placement shape; guard text `i != tskit.NULL and individuals_unphased[i]`.",
    "masked-store and guard rules, def-use wiring of the flag",
    "DESIGN.md §2 C22",
)
reg(
    "C09",
    "Decides structural clauses of determinism: no nondeterminism source on the dating path and wall-clock values reach only logging/provenance; no numba parallel/fastmath/nogil/prange (positive fixture flagged on every run); the imap_unordered gather stores results under the worker-returned key; iterated python sets hold integers (hash-seed independent) or are inside numba code; np.empty arrays are fully written (all struct fields / mask and complement); the caller's prior object is mutated only by the invertible space conversion and rows are copied. Bit-exactness of BLAS/numba/scipy across processes and the exp(log(x)) round trip are not decided.",
    "Trusted: list of nondeterminism sources; integer-element inference for sets (unknown is counted, not reported).",
    "call-graph scoped source scan, def-use of time values, decorator option scan with positive fixture, gather-shape rule, set element typing",
    "DESIGN.md §2 C09",
)

reg(
    "C18",
    "Decides the validity-gate clause: in all 14 projection wrappers every gamma fit approximate_gamma_mom(m, v) is reached only when the path condition implies _valid_moments(m, v) (truth-table implication, catches and/or slips), a returned phase probability only when 0 <= pr <= 1 is implied, failure paths return NaN with unchanged input (node) or a NaN pair (mutation); and the dispatch table of the two EP kernels (which projection, which fixed age, which cavity) per fixed/free combination, classified semantically from the branch conditions. Agreement with numerical integration and exactness of the closed forms are not decided (the formulas' dimensions are checked under C06).",
    "Trusted: boolean abstraction of guard atoms; recognised cavity shape posterior[X] - delta * message.",
    "guard implication by truth table over enumerated returns; branch-condition equivalence classes; def-use role resolution",
    "DESIGN.md §2 C18",
)
reg(
    "C21",
    "Decides the bookkeeping structure: each of the node update groups of propagate_likelihood uses one node and one direction consistently (direction follows the node's role as parent/child), one step size in cavity, likelihood and factor decay, the increment (posterior - cavity)/scale of the same node, the cap on posterior and scale with one eta, in order; the prior factor likewise; _rescale_factors rescales every message column exactly once through the node map that _assemble_factors uses and then resets scale; containers are built and passed in consistent roles; stores are control-dependent on the node not being fixed; iterate always ends by renormalising. The identity numerically (rounding) and convergence are not decided.",
    "Trusted: statement-shape extraction resolved by def-use within the branch block.",
    "update-group extraction + role-consistency obligations, sibling agreement between rescale and assemble, guard implication",
    "DESIGN.md §2 C21",
)
reg(
    "C05",
    "Decides pairing/gate/wiring clauses: every node parameter store is followed by the _rescale cap on posterior and scale with the kernel's max_shape; skipped node updates return the input unchanged; mutation posteriors start NaN and are written only from projection results or by the capped quantile reprojection; max_shape is forwarded as a pure copy at every call site (no silent default); the phase vector is folded to [0.5, 1] last on every path. Finiteness/positivity of the numbers themselves is not decided.",
    "Trusted: as C21; cap formula shape in _rescale.",
    "pairing (store followed by cap) over update groups, who-may-write, parameter forwarding rule, path enumeration",
    "DESIGN.md §2 C05",
)
reg(
    "C03",
    "Decides structural clauses: in the least-squares phase a non-zero correction of a node is control-dependent on that node not being fixed (slot-to-node mapping derived from the applying statements); the forced pass writes exactly the tested bound into the parent's slot and nothing else is written afterwards; fixed nodes are reported at their constraint with zero variance. The numerical fixed point of the alternating projections and topological edge order are not decided.",
    "Trusted: tskit edge ordering; recognised store/guard shapes.",
    "guard implication on correction stores, structural equality of tested and stored bound, def-use",
    "DESIGN.md §2 C03+C27",
)
reg(
    "C27",
    "Decides: satisfied inputs leave before any store and the caller's array is never written (idempotence/no-op), the least-squares phase runs exactly max_iterations times and is off by default for contemporaneous samples, the forced pass raises a parent exactly to the bound that was tested (minimality), fixed nodes are not moved by the least-squares phase. The numerical result of constraining is not decided.",
    "Trusted: as C03.",
    "shape rules on the constraint kernel shared with C03",
    "DESIGN.md §2 C03+C27",
)

reg(
    "C12",
    "Decides the sibling homomorphism: every likelihood-space operation of Likelihoods has a LogLikelihoods override that is its image under tau (product->sum, quotient->difference, power->scaling, np.sum->logsumexp, pmf->logpmf, reduceat over an index->segment-wise logsumexp over the same index, constants 1/0 -> 0/-inf), compared on normalised ASTs; an arithmetic method without override is reported; BeliefPropagation combines likelihood-space values only through self.lik.*; space conversions apply one function to both data arrays and record the new space; moments are taken only after conversion to linear space. Accuracy of the streaming logsumexp is not decided.",
    "Trusted: tau table; list of index-geometry methods excluded from the sibling requirement.",
    "sibling agreement by AST normalisation under a homomorphism + layering (taint) rule + typestate",
    "DESIGN.md §2 C12",
)
reg(
    "C10",
    "Decides one necessary clause of exactness: the message the outside pass divides out (recomputed branch, after inlining and aliasing child = group key) is the same expression tree the inside pass multiplied in for a non-fixed child, cached and recomputed forms normalise by the same node's denominator, the posterior is inside x outside, and each pass divides by the denominator it recorded. Everything numerical (triangular packing, the marginal likelihood value) is not decided.",
    "Trusted: aliases self.inside = inside, self.denominator = denominator inside one call.",
    "clone consistency: expression-tree equality after def-use inlining and alias normalisation",
    "DESIGN.md §2 C10",
)
reg(
    "C32",
    "Decides the set_metadata policy exhaustively on abstract paths: set_metadata folded to False/None/True, every other condition a free atom, try-body faults modelled; the effect trace (write, drop, schema install, warning) of every path is compared with the documented policy; the row builder writes both keys in every row through the table's schema starting from the row's decoded metadata. What a given schema can encode is tskit's.",
    "Trusted: path enumeration treats the faulting statement as having no table effect.",
    "finite abstract interpretation: path enumeration with constant folding + effect-trace/decision-table comparison",
    "DESIGN.md §2 C32",
)
reg(
    "C33",
    "Decides: on every returning abstract path of get_modified_ts, preprocess_ts and split_disjoint_nodes the number of provenance-recording effects (record_provenance, tskit operations that record by default unless given the literal record_provenance=False, tsdate callees likewise) is exactly 1 with recording on and 0 with it off; the flag reaches the guard unchanged; nothing truncates the provenance table; command name = method name = registry key; run() captures all parameters via locals() before binding other locals. JSON schema validity is tskit's.",
    "Trusted: list of tskit operations that record provenance by default (sa/e4.py).",
    "effect counting over enumerated paths with the recording flag folded; who-may-write; def-use",
    "DESIGN.md §2 C33",
)
reg(
    "C28",
    "Decides the wiring clause: every option of preprocess_ts is consumed; the two sibling simplify calls agree, keep all samples and take their filter flags from the parameters of the same name; delete_intervals(simplify=False); splitting iff split_disjoint; user intervals are not overwritten; derived intervals come from adjacent site positions with >= minimum_gap and flanks only under erase_flanks; every path sorts and returns the same tables. Which regions are deleted and genotype preservation are tskit semantics and not decided.",
    "Trusted: recognised statement shapes of the interval derivation.",
    "sibling call agreement, parameter consumption, guard and def-use rules, path enumeration",
    "DESIGN.md §2 C28",
)
reg(
    "C30",
    "Decides the wiring clause: allow_unary reaches both detectors unchanged from the API (keyword, **kwargs, self.allow_unary, positional MixturePrior argument), each detector runs only under `not allow_unary`, before inference, and its positive result raises ValueError; the variational detector masks samples, the prior's does not. Exactness of either detector is not decided.",
    "Trusted: positional signature of MixturePrior.__init__.",
    "parameter provenance (def-use across call hops) + guard rules",
    "DESIGN.md §2 C30",
)
reg(
    "C31",
    "Decides the exhaustiveness clause: accepted node_selection values equal the handled ones and each binds the documented summary; child age above a root; per-site maximum, min_time floor per site, NaN default; unconstrained uses the mn metadata for non-samples only; add_sampledata_times is an element-wise maximum. The arithmetic of the summaries' values is not decided.",
    "Trusted: recognised dispatch-chain shape.",
    "exhaustiveness of a string dispatch + def-use/guard rules",
    "DESIGN.md §2 C31",
)
reg(
    "C13",
    "Decides the domain-bound clause by a running-minimum abstract domain: the slice bound Y is initialised from the first parent's assigned index and only ever lowered to another parent's index, every per-parent likelihood, the running product and the inside row entering the final argmax are sliced [:Y+1], parents are assigned before children, reported times are grid points indexed by the assignment, never-a-child nodes take the argmax of their inside row. The objective being maximised is not decided.",
    "Trusted: recognised update forms (guarded assignment under cur < Y, min()).",
    "abstract interpretation with a running-minimum domain over the assignments to the bound + slice-bound rule",
    "DESIGN.md §2 C13",
)
reg(
    "C11",
    "Decides the order-only and opacity clauses: on the discrete-time path every read of the input node-time column is a sample time, a sort key (argsort/lexsort argument or a field of a structured array passed only to argsort) or a dtype query; node ids are only compared for equality/membership, never ordered or combined arithmetically or compared with counts (constructs under ignore_oldest_root belong to C38). That different valid traversal orders give the same floating-point result is not decided.",
    "Trusted: E4 typing of rows/trees; call-graph scoping of the discrete path.",
    "taint classification of every read of the input time column by its syntactic consumption context; opacity rule on id comparisons",
    "DESIGN.md §2 C11",
)
reg(
    "C16",
    "Decides structural clauses only: a user grid reaches fill_priors sorted, validated (>= 2 points, non-negative, no duplicates) and converted, an integer through create_timepoints (sorted, 0 prepended); rows exist exactly for non-samples; each row is [0] + diff(CDF on the coalescent-scale grid, normalised); standardize runs last on every path; the stored grid is the natural-scale image of the very array the CDFs used. The probability masses and parametrisation are numerical and not decided.",
    "Trusted: recognised statement shapes in fill_priors / create_timepoints.",
    "must-pass-through and def-use rules, path enumeration",
    "DESIGN.md §2 C16",
)
reg(
    "C04",
    "Decides single source and typestate: metadata means/variances and node_posteriors()/mutation_posteriors() are pure copies of node_moments()/mutation_moments() routed by field position through Results and get_modified_ts/set_time_metadata; no state-changing method of the fit (computed by an effect analysis that includes kernels with writable parameters) runs after extraction; the inside_outside grid goes standardize < to linear space < to_probabilities < mean_var; maximization passes None variances and set_time_metadata then returns before any effect. That mean_var's formula is the mean/variance is arithmetic and not decided.",
    "Trusted: Results field order read from the namedtuple definition; E2 signatures for the effect analysis.",
    "def-use origin tracking through a positional record + effect/typestate analysis over enumerated paths",
    "DESIGN.md §2 C04",
)


# Clauses added after the seeded-change rounds (appended to the level text by tools/mkmanifest.py).
# Shared rule modules: flagsrule (node flags are a bit field), nullidx (nullable ids never index),
# rowspace (grid rows are in nonfixed_nodes order), sampleorder (samples are not 'the first n nodes'),
# edgesweep (set/reset pairing of incremental sweeps), wiring (no silently ignored parameter),
# loopdef (loop-bound locals need >= 1 iteration at every call site).
EXTRA = {
    "C02": " Also (R02.3 = R32.2) metadata rows are an update of the decoded existing rows, decoded whenever the table holds metadata; (R02.4 = R01.2) every column write precedes sort.",
    "C03": " Also (R03.5) sample status is never decided by comparing the whole node-flags word (bitwise test or ts.samples() only); (R03.6) samples are never identified by position (num_samples is a count, not an id boundary).",
    "C04": " Also (R04.5) values computed over whole posterior-grid rows reach node positions only through the grid's own nonfixed_nodes order, never through a mask/arange (ascending id).",
    "C08": " Also (R08.4) no dependence on node-flag bits other than NODE_IS_SAMPLE: flags are only bit-tested or moved as a column; (R08.5 = R32.2) a row's time metadata is built from that row's own decoded metadata only.",
    "C09": " Also (R09.7) a reused prior object is converted to the likelihood's space unconditionally; (R09.8 = R36.4) the on-disk prior cache is written losslessly so cold-cache and warm-cache calls compute from identical tables; (R09.9) NodeTimeValues never converts its arrays in place (clones share them).",
    "C10": " Also (R10.3) a mutation's edge id is NULL-tested before it indexes the per-edge count array (root mutations are not credited to the last edge); (R10.4) fit.node_posteriors() rows are scattered to nodes through nonfixed_nodes only.",
    "C11": " Also (R11.3) grid rows (time-sorted) reach node ids only through nonfixed_nodes; (R11.4) samples are never identified by their position in the node table; (R11.5 = R13.2) the maximization bound is a running minimum over estimated indices, independent of the (input-time) visiting order.",
    "C12": " Also (R12.4) BeliefPropagation.__init__ converts the prior grid to lik.probability_space unconditionally, for either space.",
    "C13": " Also (R13.3) clone consistency: the per-edge Poisson likelihood is the same expression for the first parent and for later parents.",
    "C16": " Also (R16.3) non-sample rows are selected through ts.samples(), never by position relative to num_samples.",
    "C22": " Also (R22.3 = R23.3) rescaling reallocates the singleton counts of the very table its kernel reads; (R22.4) every path through infer() re-places the unphased singletons whatever the rescaling options.",
    "C23": " Also (R23.3) the count table passed to reallocate_unphased has the same origin as the one the rescaling kernel reads.",
    "C24": " Also (R24.5) no nullable id (mutation edge, node individual, Tree.parent, entries of NULL-initialised tables) indexes an array without a dominating NULL test; (R24.6) set/reset pairing and exhaustion of the incremental edge sweeps.",
    "C27": " Also (R27.4) the contemporaneous-samples test reads sample times through ts.samples(), never by position.",
    "C28": " Also (R28.3) sample status in preprocessing is decided by the NODE_IS_SAMPLE bit, never by comparing the whole flags word.",
    "C29": " Also (R29.5) samples are excluded from splitting by a bit test of the flags; (R29.6) the empty-metadata shortcut of _reorder_nodes accounts for the new unsplit_node_id rows; (R29.7) _relabel_mutations_node maps both ends of every inserted edge unconditionally.",
    "C30": " Also (R30.2) exhaustiveness of the detectors' traversals (sweep runs until insertions and removals are exhausted; edge_diffs consumers read both directions); (R30.3) the span-counting pass's own unary finding raises unless allow_unary.",
    "C31": " Also (R31.2) the parent id from tree.parent() is NULL-tested before indexing node times; (R31.3) samples are never identified by position.",
    "C32": " Also (R32.3) set_metadata is read (forwarded) by every entry point on its way to the policy; R32.2 additionally requires existing rows to be decoded whenever the table holds metadata.",
    "C33": " Also (R33.5) the recorded population_size rebuilds the history: PopulationSizeHistory.as_dict inverts the constructor (sizes halved; time_breaks emitted exactly when a break exists).",
    "C34": " Also (R34.5) rejection guards test option presence with `is (not) None`, never by truthiness (0 is a value).",
    "C35": " Also (R35.6) no public parameter is accepted and never read; (R35.7) a local bound only inside `for _ in range(<param>)` and read afterwards requires every call site to establish <argument> > 0; (R35.8) None-defaults are replaced through `is None`, never `param or DEFAULT`.",
    "C36": " Also (R36.4) the cache text format is lossless for float64; a temporary whose name is derived from the cache path (shared by all writers) is a violation of R36.1.",
    "C38": " The operand must be positively time-derived (max/argmax over node times): a count-derived, span-derived or membership test is a violation.",
}
