"""Per-property registration data used to generate MANIFEST.json (tools/mkmanifest.py)."""

NOT_APPLICABLE = {
    "C14": "exact Kingman moments are a numerical identity of a recursion over all (n, k); no structural clause is a necessary condition, and evaluating the recursion symbolically or numerically is another technique family",
    "C15": "exactness of the incremental edge-diff span bookkeeping depends on runtime tree shapes; no clause of it is visible in the shape of the code",
    "C17": "integrals, inverses and moment matching of the population-size transforms are analytic identities; only their dimensional consistency is static (covered under C06)",
    "C19": "accuracy of series cut-offs and Newton iterations is purely numerical",
    "C20": "exactness of EP in the conjugate case is a closed-form numerical identity of the whole pipeline; its structural support (message bookkeeping, cap pairing) is what C21/C05 check",
    "C25": "monotonicity and continuity of the fitted piecewise-linear map depend on runtime breakpoints; the pass-through of fixed nodes and the cap wiring are covered by C03/C05",
    "C26": "optimality of a dynamic programme and the searchsorted boundary rule quantify over runtime arrays; exhaustive testing or proof, not static analysis, settles them",
}

# pid -> dict(text, note, technique, ref)
CHECKS = {}


def reg(pid, text, note, technique, ref):
    CHECKS[pid] = dict(text=text, note=note, technique=technique, ref=ref)


reg(
    "C37",
    "Decides two structural clauses: (R37.1) every argument passed from rescale_tree_sequence to its numba kernels has the array type the kernel's explicit signature requires (a definite mismatch makes the function raise TypeError for every input); (R37.2) mutation times are the midpoint of the end nodes of the mutation's edge, overwritten by the node's own time under the edge==NULL mask, sample mask forwarded, tables pipeline ordered. Does not decide monotonicity of the fitted map.",
    "Trusted: table of tskit/numpy array types and numba dispatch rules in sa/e2.py (probed once at design time); CPython ast.",
    "abstract array-type inference at kernel call sites vs. parsed numba signatures; def-use origin rules",
    "DESIGN.md §2 C37, §1 E2",
)
