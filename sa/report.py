"""Obligation bookkeeping, known findings, evidence files, exit codes."""

import json
import os
import time

VERIF = os.path.dirname(os.path.dirname(os.path.abspath(__file__)))
KNOWN = os.path.join(VERIF, "known_findings.json")

OK, BAD, UNRES = "discharged", "violated", "unresolved"


class Result:
    def __init__(self, pid, tier="quick"):
        self.pid = pid
        self.tier = tier
        self.obs = []  # dict(rule, construct, status, detail, loc)
        self.analysed = {}  # free-form counts: functions, call sites, paths ...
        self.rules = {}  # rule id -> one-line description
        self.t0 = time.time()
        self.selfval = None
        self.notes = []

    # -- recording ------------------------------------------------------------------
    def rule(self, rid, text):
        self.rules[rid] = text

    def _add(self, status, rule, construct, detail, loc):
        self.obs.append(dict(rule=rule, construct=construct, status=status, detail=detail, loc=loc))

    def ok(self, rule, construct, detail="", loc=""):
        self._add(OK, rule, construct, detail, loc)

    def bad(self, rule, construct, detail, loc=""):
        self._add(BAD, rule, construct, detail, loc)

    def unres(self, rule, construct, detail, loc=""):
        self._add(UNRES, rule, construct, detail, loc)

    def require(self, cond, rule, construct, detail_bad, loc="", detail_ok=""):
        if cond:
            self.ok(rule, construct, detail_ok, loc)
        else:
            self.bad(rule, construct, detail_bad, loc)
        return bool(cond)

    def count(self, key, n=1):
        self.analysed[key] = self.analysed.get(key, 0) + n

    def floor(self, what, n, minimum):
        """a rule that matches fewer instances than confirmed by hand is broken"""
        from .base import AnalysisError

        self.analysed[what] = n
        if n < minimum:
            raise AnalysisError(f"{what}: found {n}, fewer than the {minimum} confirmed by hand")

    # -- queries --------------------------------------------------------------------
    def violations(self):
        return [o for o in self.obs if o["status"] == BAD]

    def keys(self):
        return {(o["rule"], o["construct"]) for o in self.violations()}

    def keys3(self):
        return {(o["rule"], o["construct"], o["detail"]) for o in self.violations()}


def load_known():
    if not os.path.exists(KNOWN):
        return []
    with open(KNOWN) as f:
        data = json.load(f)
    return data.get("findings", [])


def finish(res, seed=0, error=None, quiet=False):
    """print verdict lines, write out/ replay files and the evidence file; return exit code"""
    pid = res.pid
    known = [k for k in load_known() if k.get("property") == pid and k.get("status") == "known"]
    known_keys = {(k["rule"], k["construct"]) for k in known}
    viols = res.violations()
    new = [v for v in viols if (v["rule"], v["construct"]) not in known_keys]
    old = [v for v in viols if (v["rule"], v["construct"]) in known_keys]
    scratch = bool(os.environ.get("VERIF_NO_EVIDENCE"))
    outdir = os.path.join(VERIF, "out", "scratch") if scratch else os.path.join(VERIF, "out")
    os.makedirs(outdir, exist_ok=True)
    lines = []
    code = 0
    if error is not None:
        lines.append(f"ANALYSIS-ERROR property={pid} {error}")
        code = 2
    seen_old = set()
    for v in old:
        k = (v["rule"], v["construct"])
        if k in seen_old:
            continue
        seen_old.add(k)
        lines.append(f"KNOWN-FINDING: property={pid} {v['rule']} {v['construct']}: {v['detail']} [{v['loc']}]")
    for i, v in enumerate(new):
        path = os.path.join(outdir, f"{pid}.{i}.json")
        with open(path, "w") as f:
            json.dump(dict(property=pid, **v), f, indent=1)
        lines.append(f"  {v['loc']}: {v['rule']} {v['construct']}: {v['detail']}")
        lines.append(f"VIOLATION property={pid} replay={path}")
        if code == 0:
            code = 1
    n_ok = sum(o["status"] == "discharged" for o in res.obs)
    n_un = sum(o["status"] == "unresolved" for o in res.obs)
    wall = time.time() - res.t0
    lines.append(
        f"{pid} [{res.tier}] obligations={len(res.obs)} discharged={n_ok} violated={len(viols)} "
        f"(known={len(old)}) unresolved={n_un} wall={wall:.2f}s exit={code}"
    )
    if not quiet:
        print("\n".join(lines))
    # evidence
    distinct = len({(o["rule"], o["construct"]) for o in res.obs})
    samples = []
    seen_rules = set()
    for o in res.obs:
        if o["rule"] not in seen_rules or len(samples) < 12:
            if sum(1 for s in samples if s["rule"] == o["rule"]) < 3:
                samples.append({k: o[k] for k in ("rule", "construct", "status", "detail", "loc")})
            seen_rules.add(o["rule"])
    cov = dict(
        explanation=(
            "Static analysis of /repo/tsdate/*.py source (stdlib ast only, no execution). "
            "Every obligation is one rule instance (rule id + construct) evaluated on the current tree; "
            "'discharged' means the structural rule holds for that construct, 'unresolved' that the "
            "analysis reached its top element there (counted, never reported as a violation)."
        ),
        rule="; ".join(f"{k}: {v}" for k, v in sorted(res.rules.items())),
        obligations=len(res.obs),
        discharged=n_ok,
        violated=len(viols),
        known_findings=len(seen_old),
        unresolved=n_un,
        evaluations=len(res.obs),
        distinct_nontrivial=distinct,
        analysed=res.analysed,
        samples=samples,
        exhaustive=True,
        checker_cmd=f"./check {pid} --tier {res.tier}",
        trusted_base=["CPython ast.parse", "tables of tskit/numpy/numba facts in /verif/sa"],
    )
    if res.selfval is not None:
        cov["self_validation"] = res.selfval
    if res.notes:
        cov["notes"] = res.notes
    if error is not None:
        cov["analysis_error"] = str(error)
    ev = dict(
        property_id=pid,
        tier=res.tier,
        seed=int(seed),
        level="other",
        coverage=cov,
        assumptions=res.assumptions if hasattr(res, "assumptions") else [],
        wall_s=round(wall, 3),
        violations=len(new),
    )
    if scratch:
        return code
    evdir = os.path.join(VERIF, "evidence")
    os.makedirs(evdir, exist_ok=True)
    with open(os.path.join(evdir, f"{pid}.json"), "w") as f:
        json.dump(ev, f, indent=1)
    return code
