"""C01 -- dated output valid, branch lengths enforced (structural clauses R01.1-R01.4)."""

import ast

from ..base import AnalysisError, Defs, U, bool_guards, own_nodes, stmts, store_targets
from ..paths import enum_paths

PIPELINE = ["sort", "build_index", "compute_mutation_parents", "compute_mutation_times", "tree_sequence"]


def _const_value(repo, mod, name):
    v = repo.mods[mod].consts.get(name)
    if isinstance(v, ast.Constant) and isinstance(v.value, (int, float)):
        return v.value
    return None


def run(repo, res):
    res.rule("R01.1", "every path of get_modified_ts to its return stores into the node time column the result of util.constrain_ages(ts, <posterior mean>, self.min_branch_length, self.constr_iterations); min_branch_length is the positive default or validated > 0; all methods return through parse_result -> get_modified_ts")
    res.rule("R01.2", "typestate of the output tables: column writes < sort < build_index < compute_mutation_parents < compute_mutation_times < tree_sequence, each once per path, mutation times reset to UNKNOWN beforehand, same tables object returned")
    res.rule("R01.3", "_constrain_ages: the forced pass is the last loop, ranges over all edges in table order, lies on every path to the final return, stores only into the parent's slot; the early exit is guarded by all(t[P] - t[C] > eps)")
    res.rule("R01.4", "order derivation (FP-sound calculus): after the forced store and on its skip branch both t[p] > t[c] and t[p] >= t[c] (+) eps are derivable")
    r011(repo, res)
    r012(repo, res)
    r013_4(repo, res)


# ---------------------------------------------------------------------------------------
def r011(repo, res):
    f = repo.fn("core", "EstimationMethod.get_modified_ts")
    ca = repo.fn("util", "constrain_ages")
    d = Defs(f)
    paths = [p for p in enum_paths(f) if p.exit == "return"]
    if not paths:
        raise AnalysisError("R01.1: get_modified_ts has no return path")
    res.count("get_modified_ts_return_paths", len(paths))
    for i, p in enumerate(paths):
        conds = " and ".join((U(e[1]) if e[2] else f"not ({U(e[1])})") for e in p.conds()) or "always"
        cons = f"core.EstimationMethod.get_modified_ts path[{conds}] node times come from constrain_ages"
        hit = None
        for s in p.stmts():
            if isinstance(s, ast.Assign):
                for t in store_targets(s):
                    o = d.origins(t.value) if isinstance(t, ast.Attribute) else set()
                    if isinstance(t, ast.Attribute) and t.attr == "time" and any(x.endswith(".nodes") for x in o | {U(t.value)}):
                        hit = s
        if hit is None:
            res.bad("R01.1", cons, "this path returns a tree sequence without storing constrained node times", repo.loc(f, p.node))
            continue
        v = hit.value
        if not (isinstance(v, ast.Call) and ca in repo.resolve_call(f, v)):
            res.bad("R01.1", cons, f"node times are stored from `{U(v)[:60]}`, not from util.constrain_ages", repo.loc(f, hit))
            continue
        from ..base import bind_args

        b = bind_args(v, ca)
        eps_o = d.origins(b["epsilon"]) if "epsilon" in b else {"<default>"}
        it_o = d.origins(b["max_iterations"]) if "max_iterations" in b else {"<default>"}
        ts_o = d.origins(b["ts"]) if "ts" in b else set()
        ok = eps_o == {"self.min_branch_length"} and it_o == {"self.constr_iterations"} and ts_o == {"self.ts"}
        res.require(ok, "R01.1", cons, f"constrain_ages called with ts={sorted(ts_o)} epsilon={sorted(eps_o)} max_iterations={sorted(it_o)}; expected self.ts, self.min_branch_length, self.constr_iterations", repo.loc(f, hit), "eps=self.min_branch_length, iterations=self.constr_iterations")
        # the times that are constrained are the posterior means handed over by the method
        nt_o = d.origins(b["nodes_time"]) if "nodes_time" in b else set()
        res.require(nt_o == {"result.posterior_mean"}, "R01.1", f"core.EstimationMethod.get_modified_ts path[{conds}] constrains the posterior means", f"constrained vector originates from {sorted(nt_o)}", repo.loc(f, hit))
    # min_branch_length validation
    init = repo.fn("core", "EstimationMethod.__init__")
    n_assign = 0
    for s, g in stmts(init):
        if isinstance(s, ast.Assign) and any(U(t) == "self.min_branch_length" for t in s.targets):
            n_assign += 1
            v = s.value
            cons = f"core.EstimationMethod.__init__ self.min_branch_length = {U(v)}"
            if isinstance(v, ast.Name) and _const_value(repo, "core", v.id) is not None:
                res.require(_const_value(repo, "core", v.id) > 0, "R01.1", cons, "default is not positive", repo.loc(init, s), f"{v.id} = {_const_value(repo, 'core', v.id)}")
            elif isinstance(v, ast.Name):
                guard = any((not pol) and U(e).replace(" ", "") in (f"not{v.id}>0.0", f"not{v.id}>0", f"{v.id}<=0", f"{v.id}<=0.0") for e, pol in bool_guards(g))
                # `not x > 0` also rejects NaN; `x <= 0` does not
                nan_safe = any((not pol) and U(e).replace(" ", "").startswith("not") for e, pol in bool_guards(g))
                res.require(guard, "R01.1", cons, f"stored without a dominating `raise unless {v.id} > 0` guard", repo.loc(init, s), "guarded by raise unless > 0" + ("" if nan_safe else " (NaN passes)"))
            else:
                res.bad("R01.1", cons, "min_branch_length is computed, not the validated parameter", repo.loc(init, s))
    if n_assign == 0:
        raise AnalysisError("R01.1: no assignment to self.min_branch_length found")
    # all three methods reach the caller only through parse_result -> get_modified_ts
    pr = repo.fn("core", "EstimationMethod.parse_result")
    gm_calls = [n for n in own_nodes(pr) if isinstance(n, ast.Call) and U(n.func) == "self.get_modified_ts"]
    first = pr.body[0]
    ok = len(gm_calls) == 1 and isinstance(first, ast.Assign) and isinstance(first.value, ast.List) and first.value.elts and U(first.value.elts[0]).startswith("self.get_modified_ts(")
    res.require(ok, "R01.1", "core.EstimationMethod.parse_result returns get_modified_ts(result) first", "the first returned element is not the modified tree sequence", repo.loc(pr))
    for name in ("maximization", "inside_outside", "variational_gamma"):
        w = repo.fn("core", name)
        rets = [n for n in own_nodes(w) if isinstance(n, ast.Return)]
        okw = bool(rets) and all(isinstance(r.value, ast.Call) and isinstance(r.value.func, ast.Attribute) and r.value.func.attr == "parse_result" for r in rets)
        res.require(okw, "R01.1", f"core.{name} returns through parse_result", f"returns `{U(rets[-1].value)[:50] if rets else None}`", repo.loc(w))
    # constrain_ages forwards to the kernel and returns its result
    k = repo.fn("util", "_constrain_ages")
    dc = Defs(ca)
    kc = [n for n in own_nodes(ca) if isinstance(n, ast.Call) and k in repo.resolve_call(ca, n)]
    if len(kc) != 1:
        raise AnalysisError("R01.1: constrain_ages does not call _constrain_ages exactly once")
    names = [a.arg for a in k.args.args]
    args = dict(zip(names, kc[0].args))
    okf = dc.origins(args["epsilon"]) == {"<param epsilon>"} and dc.origins(args["max_iterations"]) == {"<param max_iterations>"} and dc.origins(args["nodes_time"]) == {"<param nodes_time>"}
    okf = okf and U(args["edges_parent"]) == "ts.edges_parent" and U(args["edges_child"]) == "ts.edges_child"
    rets = [n for n in own_nodes(ca) if isinstance(n, ast.Return)]
    okr = all(dc.origins(r.value) == {U(kc[0])} for r in rets)
    res.require(okf and okr, "R01.1", "util.constrain_ages forwards epsilon/iterations/edges to the kernel and returns its result", "arguments are not forwarded unchanged or the result is not returned", repo.loc(ca, kc[0]))


# ---------------------------------------------------------------------------------------
def r012(repo, res):
    f = repo.fn("core", "EstimationMethod.get_modified_ts")
    d = Defs(f)

    def table_of(e):
        # a *name* bound to the one dump_tables() result (a fresh dump_tables() call is another object)
        if not isinstance(e, ast.Name):
            return False
        o = d.origins(e)
        return bool(o) and all(x in ("ts.dump_tables()", "self.ts.dump_tables()") for x in o) and len(d.values(e.id)) == 1

    paths = [p for p in enum_paths(f) if p.exit == "return"]
    for p in paths:
        conds = " and ".join((U(e[1]) if e[2] else f"not ({U(e[1])})") for e in p.conds()) or "always"
        seq = []
        for s in p.stmts():
            if isinstance(s, ast.Assign):
                for t in store_targets(s):
                    if isinstance(t, ast.Attribute):
                        o = d.origins(t.value) | {U(t.value)}
                        if any(x.endswith(".nodes") or x.endswith(".mutations") for x in o):
                            tab = "nodes" if any(x.endswith(".nodes") for x in o) else "mutations"
                            seq.append((f"write {tab}.{t.attr}", s))
            for c in ast.walk(s):
                if isinstance(c, ast.Call) and isinstance(c.func, ast.Attribute) and c.func.attr in PIPELINE and table_of(c.func.value):
                    seq.append((c.func.attr, s))
        names = [n for n, _ in seq]
        cons = f"core.EstimationMethod.get_modified_ts path[{conds}] tables typestate"
        problems = []
        for st in PIPELINE:
            if names.count(st) != 1:
                problems.append(f"{st} occurs {names.count(st)} times")
        if not problems:
            idx = [names.index(st) for st in PIPELINE]
            if idx != sorted(idx):
                problems.append(f"pipeline order is {[n for n in names if n in PIPELINE]}")
            writes = [i for i, n in enumerate(names) if n.startswith("write ")]
            if writes and max(writes) > names.index("sort"):
                problems.append(f"column write `{names[max(writes)]}` after sort")
            for need in ("write nodes.time", "write mutations.time"):
                if need not in names:
                    problems.append(f"missing {need}")
        # mutation times reset to UNKNOWN so that compute_mutation_times recomputes all
        for n, s in seq:
            if n == "write mutations.time" and "UNKNOWN_TIME" not in U(s.value):
                problems.append(f"mutation times are not reset to UNKNOWN_TIME: `{U(s.value)[:50]}`")
            if n == "write mutations.parent" and "NULL" not in U(s.value):
                problems.append("mutation parents are not reset to NULL")
        ret = p.node.value
        if not (isinstance(ret, ast.Call) and isinstance(ret.func, ast.Attribute) and ret.func.attr == "tree_sequence" and table_of(ret.func.value)):
            problems.append(f"returns `{U(ret)[:50]}`, not tables.tree_sequence()")
        res.require(not problems, "R01.2", cons, "; ".join(problems), repo.loc(f, p.node), " < ".join(names))


# ---------------------------------------------------------------------------------------
def bounds_of(v, tc, eps_forms, tp):
    """facts the expression satisfies relative to t[c]: 'geX' (>= t[c] (+) eps), 'gtc' (> t[c])"""
    txt = U(v).replace(" ", "")
    if txt in eps_forms:
        return {"geX"}
    if isinstance(v, ast.Call) and U(v.func) in ("np.nextafter", "nextafter", "math.nextafter") and len(v.args) == 2:
        up = U(v.args[1]).replace(" ", "") in ("np.inf", "inf", "math.inf", "float('inf')")
        a = U(v.args[0]).replace(" ", "")
        if up and a == tc:
            return {"gtc"}
        if up and a in eps_forms:
            return {"geX", "gtc"}
        return set()
    if isinstance(v, ast.Call) and U(v.func) in ("max", "np.maximum", "np.fmax"):
        out = set()
        for a in v.args:
            out |= bounds_of(a, tc, eps_forms, tp)
        return out
    return set()


def r013_4(repo, res):
    f = repo.fn("util", "_constrain_ages")
    d = Defs(f)
    loops = [s for s in f.body if isinstance(s, (ast.For, ast.While))]
    if not loops:
        raise AnalysisError("R01.3: no loop in _constrain_ages")
    forced = loops[-1]
    tail = f.body[f.body.index(forced) + 1 :]
    final_ret = f.body[-1]
    ok_last = isinstance(final_ret, ast.Return) and all(not isinstance(s, (ast.For, ast.While, ast.If)) for s in tail[:-1])
    res.require(ok_last, "R01.3", "util._constrain_ages forced pass is the last loop before the final return", "statements after the forced pass may alter the result", repo.loc(f, forced))
    # working vector is a copy of the argument and is what is returned
    tvar = U(final_ret.value) if isinstance(final_ret, ast.Return) else None
    copy_ok = any(isinstance(v, ast.Call) and U(v) == f"{tvar}.copy()" for v in d.values(tvar))
    res.require(copy_ok, "R01.3", "util._constrain_ages works on a copy of its argument", f"`{tvar}` is not rebound to a .copy()", repo.loc(f))
    # loop range: all edges ascending
    it = forced.iter if isinstance(forced, ast.For) else None
    rng_ok = False
    if isinstance(it, ast.Call) and U(it.func) == "range" and len(it.args) == 1:
        o = d.origins(it.args[0])
        rng_ok = o <= {"edges_parent.size", "edges_child.size", "len(edges_parent)", "len(edges_child)"} and bool(o)
    res.require(rng_ok, "R01.3", "util._constrain_ages forced pass visits every edge in table order", f"loop iterates over `{U(it)}`", repo.loc(f, forced), U(it))
    # earlier returns
    for s, g in stmts(f):
        if isinstance(s, ast.Return) and s is not final_ret:
            tests = [e for e, pol in bool_guards(g) if pol]
            shape = False
            for t in tests:
                if isinstance(t, ast.Call) and U(t.func) == "np.all" and t.args and isinstance(t.args[0], ast.Compare):
                    c = t.args[0]
                    if len(c.ops) == 1 and isinstance(c.ops[0], ast.Gt) and isinstance(c.left, ast.BinOp) and isinstance(c.left.op, ast.Sub):
                        a, b = U(c.left.left), U(c.left.right)
                        shape = a == f"{tvar}[edges_parent]" and b == f"{tvar}[edges_child]" and U(c.comparators[0]) == "epsilon"
            same = U(s.value) == tvar
            res.require(shape and same, "R01.3", "util._constrain_ages early exit only when every edge already satisfies t[P] - t[C] > eps", f"early `return {U(s.value)}` under `{' and '.join(U(t) for t in tests)}`", repo.loc(f, s), "all(t[P] - t[C] > eps) implies t[P] > t[C] and t[P] >= t[C] (+) eps")
    # stores inside the forced pass
    idx = forced.target.id if isinstance(forced, ast.For) and isinstance(forced.target, ast.Name) else None
    fd = {}
    for s in forced.body:
        if isinstance(s, ast.Assign):
            for t, v in zip(s.targets[0].elts, s.value.elts) if isinstance(s.targets[0], ast.Tuple) and isinstance(s.value, ast.Tuple) else [(s.targets[0], s.value)]:
                if isinstance(t, ast.Name):
                    fd[t.id] = U(v)
    par = [k for k, v in fd.items() if v == f"edges_parent[{idx}]"]
    chi = [k for k, v in fd.items() if v == f"edges_child[{idx}]"]
    if len(par) != 1 or len(chi) != 1:
        raise AnalysisError("R01.3: parent/child of the edge not bound as locals in the forced pass")
    p, c = par[0], chi[0]
    tp, tc = f"{tvar}[{p}]", f"{tvar}[{c}]"
    eps_forms = {f"{tc}+epsilon", f"epsilon+{tc}"}
    # temporaries for X
    for k, v in list(fd.items()):
        if v.replace(" ", "") in eps_forms:
            eps_forms.add(k)
    n_store = 0
    from ..base import walk_guarded

    for s, g in walk_guarded(forced.body):
        for t in store_targets(s):
            if isinstance(t, ast.Subscript) and U(t.value) == tvar:
                n_store += 1
                cons = f"util._constrain_ages forced pass store `{U(t)}`"
                if U(t) != tp:
                    res.bad("R01.3", cons, f"the forced pass writes `{U(t)}`; only the parent's slot `{tp}` may be raised", repo.loc(f, s))
                    continue
                res.ok("R01.3", cons, "store targets the parent's slot", repo.loc(f, s))
                if isinstance(s, ast.AugAssign):
                    res.bad("R01.4", cons, "augmented update: the resulting bound is not derivable", repo.loc(f, s))
                    continue
                b = bounds_of(s.value, tc, eps_forms, tp)
                guards = bool_guards(g)
                miss = {"geX", "gtc"} - b
                res.require(not miss, "R01.4", f"util._constrain_ages after the forced store t[p] > t[c] and t[p] >= t[c] (+) eps",
                            f"`{U(s)}` gives {sorted(b) or 'no bound'}; not derivable: " + ", ".join({"geX": "t[p] >= t[c] (+) eps", "gtc": "t[p] > t[c] (the sum t[c] + eps is absorbed for large t[c], so the parent can equal the child)"}[m] for m in sorted(miss)),
                            repo.loc(f, s), f"`{U(s.value)}` |- {sorted(b)}")
                # skip branch: negated guard must give both facts
                if not guards and U(s.value).replace(" ", "").startswith("max(") and tp in U(s.value).replace(" ", ""):
                    res.ok("R01.4", "util._constrain_ages skip branch keeps the bounds", "unconditional max(t[p], ...) form", repo.loc(f, s))
                elif len(guards) == 1 and guards[0][1] and isinstance(guards[0][0], ast.Compare) and len(guards[0][0].ops) == 1:
                    cmp_ = guards[0][0]
                    l, r, op = U(cmp_.left).replace(" ", ""), U(cmp_.comparators[0]).replace(" ", ""), cmp_.ops[0]
                    strict_skip = (l in eps_forms and r == tp and isinstance(op, ast.GtE)) or (l == tp and r in eps_forms and isinstance(op, ast.LtE))
                    weak_skip = (l in eps_forms and r == tp and isinstance(op, ast.Gt)) or (l == tp and r in eps_forms and isinstance(op, ast.Lt))
                    if strict_skip:
                        res.ok("R01.4", "util._constrain_ages skip branch keeps the bounds", f"not ({U(cmp_)}) |- t[p] > t[c] (+) eps >= t[c]", repo.loc(f, s))
                    elif weak_skip:
                        res.bad("R01.4", "util._constrain_ages skip branch keeps the bounds", f"not ({U(cmp_)}) only gives t[p] >= t[c] (+) eps; when eps is absorbed the parent may equal the child and is left unchanged", repo.loc(f, s))
                    else:
                        res.bad("R01.4", "util._constrain_ages skip branch keeps the bounds", f"guard `{U(cmp_)}` does not compare t[c] + eps with t[p]", repo.loc(f, s))
                else:
                    res.bad("R01.4", "util._constrain_ages skip branch keeps the bounds", f"guard shape not derivable: {[U(e) for e, _ in guards]}", repo.loc(f, s))
    if n_store == 0:
        res.bad("R01.3", "util._constrain_ages forced pass stores the bound", "the forced pass never writes the time vector", repo.loc(f, forced))
    # epsilon >= 0 assumed by the calculus: asserted by the wrapper / validated at the API (R01.1)


_STORE = "            nodes_time[p] = max(\n                nodes_time[c] + epsilon, np.nextafter(nodes_time[c], np.inf)\n            )\n"
VARIANTS = [
    dict(name="absorbed-eps", mod="util", expect="fire", rule="R01.4", old=_STORE, new="            nodes_time[p] = nodes_time[c] + epsilon\n"),
    dict(name="guard-strict", mod="util", expect="fire", rule="R01.4", old="        if nodes_time[c] + epsilon >= nodes_time[p]:", new="        if nodes_time[c] + epsilon > nodes_time[p]:"),
    dict(name="store-child", mod="util", expect="fire", rule="R01.3", old=_STORE, new="            nodes_time[c] = nodes_time[p] - epsilon\n"),
    dict(name="skip-last-edge", mod="util", expect="fire", rule="R01.3",
         old="    # force remaining constraint, which can change the ages of fixed nodes\n    for e in range(num_edges):", new="    # force remaining constraint, which can change the ages of fixed nodes\n    for e in range(num_edges - 1):"),
    dict(name="early-exit-ge", mod="util", expect="fire", rule="R01.3",
         old="        if np.all(nodes_time[edges_parent] - nodes_time[edges_child] > epsilon):", new="        if np.all(nodes_time[edges_parent] - nodes_time[edges_child] >= epsilon):"),
    dict(name="early-exit-any", mod="util", expect="fire", rule="R01.3",
         old="        if np.all(nodes_time[edges_parent] - nodes_time[edges_child] > epsilon):", new="        if np.any(nodes_time[edges_parent] - nodes_time[edges_child] > epsilon):"),
    dict(name="eps-not-user", mod="core", expect="fire", rule="R01.1",
         old="            ts, node_mean_t, self.min_branch_length, self.constr_iterations\n", new="            ts, node_mean_t, DEFAULT_MIN_BRANCH_LENGTH, self.constr_iterations\n"),
    dict(name="unconstrained-times", mod="core", expect="fire", rule="R01.1",
         old="        nodes.time = util.constrain_ages(\n            ts, node_mean_t, self.min_branch_length, self.constr_iterations\n        )", new="        nodes.time = node_mean_t"),
    dict(name="constrain-only-if-pbar", mod="core", expect="fire", rule="R01.1",
         old="        nodes.time = util.constrain_ages(\n            ts, node_mean_t, self.min_branch_length, self.constr_iterations\n        )",
         new="        if self.pbar:\n            nodes.time = util.constrain_ages(\n                ts, node_mean_t, self.min_branch_length, self.constr_iterations\n            )"),
    dict(name="mbl-guard-dropped", mod="core", expect="fire", rule="R01.1",
         old="            if not min_branch_length > 0.0:\n                raise ValueError(\"Minimum branch length must be positive\")\n", new=""),
    dict(name="no-compute-times", mod="core", expect="fire", rule="R01.2", old="        tables.compute_mutation_times()\n", new=""),
    dict(name="sort-after-parents", mod="core", expect="fire", rule="R01.2",
         old="        tables.sort()  # need to sort before computing parents and times\n        tables.build_index()\n        # If mutation nodes have been switched, we may need to recalculate parents\n        tables.compute_mutation_parents()\n",
         new="        tables.build_index()\n        tables.compute_mutation_parents()\n        tables.sort()\n"),
    dict(name="times-not-reset", mod="core", expect="fire", rule="R01.2",
         old="        mutations.time = np.full_like(mutations.time, tskit.UNKNOWN_TIME)\n", new="        mutations.time = mutations.time\n"),
    dict(name="returns-input", mod="core", expect="fire", rule="R01.2", old="        return tables.tree_sequence()\n\n    def set_time_metadata", new="        return ts.dump_tables().tree_sequence()\n\n    def set_time_metadata"),
    dict(name="kernel-eps-literal", mod="util", expect="fire", rule="R01.1",
         old="        ts.edges_child,\n        epsilon,\n        max_iterations,\n    )\n    modified", new="        ts.edges_child,\n        1e-6,\n        max_iterations,\n    )\n    modified"),
    dict(name="twin-temp-for-X", mod="util", expect="silent",
         old="        if nodes_time[c] + epsilon >= nodes_time[p]:\n            # for large ages `epsilon` is absorbed, so step to the next float\n" + _STORE,
         new="        bound = nodes_time[c] + epsilon\n        if bound >= nodes_time[p]:\n            nodes_time[p] = max(bound, np.nextafter(nodes_time[c], np.inf))\n"),
    dict(name="twin-nextafter-of-sum", mod="util", expect="silent", old=_STORE, new="            nodes_time[p] = np.nextafter(nodes_time[c] + epsilon, np.inf)\n"),
    dict(name="twin-logging", mod="core", expect="silent", old="        tables.build_index()\n        # If mutation", new="        tables.build_index()\n        logger.debug('indexed')\n        # If mutation"),
]
