"""C02 -- dating changes only times, time metadata and unphased singleton placement."""

import ast

from ..base import AnalysisError, Defs, U, own_nodes, stmts
from ..callgraph import CallGraph
from ..e4 import TABLES, Typing, classify
from .common import engine

API = ("date", "variational_gamma", "inside_outside", "maximization")
# (receiver, accessor, kind) -> functions where it is allowed (None = anywhere on the dating path)
ALLOWED = {
    ("Tables", "time_units", "store"): {"core.EstimationMethod.get_modified_ts"},
    ("Table:nodes", "time", "store"): {"core.EstimationMethod.get_modified_ts"},
    ("Table:mutations", "node", "store"): {"core.EstimationMethod.get_modified_ts"},
    ("Table:mutations", "time", "store"): {"core.EstimationMethod.get_modified_ts"},
    ("Table:mutations", "parent", "store"): {"core.EstimationMethod.get_modified_ts"},
    ("Tables", "sort", "call"): {"core.EstimationMethod.get_modified_ts"},
    ("Tables", "build_index", "call"): {"core.EstimationMethod.get_modified_ts"},
    ("Tables", "compute_mutation_parents", "call"): {"core.EstimationMethod.get_modified_ts"},
    ("Tables", "compute_mutation_times", "call"): {"core.EstimationMethod.get_modified_ts"},
    ("Table:provenances", "add_row", "call"): {"provenance.record_provenance"},
}
META = {"packset_metadata", "drop_metadata", "metadata_schema"}
META_FUNCS = {"core.EstimationMethod.set_time_metadata", "core.EstimationMethod.set_time_metadata._time_md_array"}


def run(repo, res):
    from .common import borrow

    borrow(repo, res, "c32", "R32.2", "R02.3", "(= R32.2) time metadata is an update of each row's existing metadata: the row builder decodes the existing rows whenever the table holds metadata and only adds mn / vr, so no other field of any row changes")
    borrow(repo, res, "c01", "R01.2", "R02.4", "(= R01.2) typestate of the output tables: every column write (node times, mutation nodes, mutation time/parent resets) precedes sort, so values stay attached to the rows they were computed for")
    res.rule("R02.1", "who-may-write: on the dating call graph every store / mutator call on a TableCollection or table is in the allow-list (time_units, nodes.time, mutations.{node,time,parent}, sort/build_index/compute_mutation_parents/compute_mutation_times in get_modified_ts; metadata writers on the node/mutation table only in set_time_metadata; one provenance add_row)")
    res.rule("R02.2", "the value stored to mutations.node is, for the discrete methods, the input's mutations_node unmodified, and for variational_gamma the fit's mutation_nodes: a copy of the input column whose only later stores are masked by mutation_blocks != NULL")
    cg = engine(repo, CallGraph)
    ty = engine(repo, Typing)
    roots = [repo.fn("core", n) for n in API]
    reach = cg.reachable(roots)
    n_w = 0
    for f in sorted(reach, key=lambda f: (f._mod, f.lineno)):
        name = f"{f._mod}.{f._qual}"
        for bt, attr, kind, node in ty.accesses(f):
            if not (bt == TABLES or bt.startswith("Table:")):
                continue
            c = classify(bt, attr)
            if c is None:
                raise AnalysisError(f"E4: accessor {bt}.{attr} in {name} is not classified")
            is_write = kind == "store" or c == "mutator"
            if not is_write:
                continue
            n_w += 1
            cons = f"{name} writes {bt}.{attr}"
            loc = repo.loc(f, node)
            key = (bt, attr, kind)
            if attr in META and bt in ("Table:nodes", "Table:mutations"):
                res.require(name in META_FUNCS, "R02.1", cons, "metadata of the output tables may only be written by set_time_metadata", loc, "time metadata writer")
            elif key in ALLOWED:
                res.require(name in ALLOWED[key], "R02.1", cons, f"allowed only in {sorted(ALLOWED[key])}", loc, "allow-listed")
            else:
                res.bad("R02.1", cons, f"`{U(node)}` ({kind}) is not in the allow-list: dating would change more than times, time metadata and singleton placement; call chain: {cg.path(roots, f)}", loc)
    res.floor("table_writes_on_dating_path", n_w, 12)
    # set_time_metadata is applied to the node and mutation tables only
    gm = repo.fn("core", "EstimationMethod.get_modified_ts")
    for n in own_nodes(gm):
        if isinstance(n, ast.Call) and U(n.func) == "self.set_time_metadata" and n.args:
            t = ty.ty(gm, n.args[0])
            res.require(t in ("Table:nodes", "Table:mutations"), "R02.1", f"core.EstimationMethod.get_modified_ts set_time_metadata({U(n.args[0])})", f"metadata written on {t}", repo.loc(gm, n), str(t))
    r022(repo, res)


def results_fields(repo):
    v = repo.mods["core"].consts.get("Results")
    if isinstance(v, ast.Call) and len(v.args) >= 2 and isinstance(v.args[1], (ast.List, ast.Tuple)):
        return [x.value for x in v.args[1].elts]
    raise AnalysisError("core.Results namedtuple not found")


def r022(repo, res):
    fields = results_fields(repo)
    idx = fields.index("mutation_node")
    gm = repo.fn("core", "EstimationMethod.get_modified_ts")
    d = Defs(gm)
    st = [s for s, g in stmts(gm) if isinstance(s, ast.Assign) and any(isinstance(t, ast.Attribute) and t.attr == "node" for t in s.targets)]
    if len(st) != 1:
        raise AnalysisError("R02.2: store to mutations.node not found in get_modified_ts")
    o = d.origins(st[0].value)
    res.require(o == {"result.mutation_node"}, "R02.2", "core.EstimationMethod.get_modified_ts mutations.node = result.mutation_node", f"stored value originates from {sorted(o)}", repo.loc(gm, st[0]))
    for cname, want in (("InsideOutsideMethod", "input"), ("MaximizationMethod", "input"), ("VariationalGammaMethod", "fit")):
        f = repo.fn("core", f"{cname}.run")
        dd = Defs(f)
        rs = [n for n in own_nodes(f) if isinstance(n, ast.Call) and U(n.func) == "Results"]
        if len(rs) != 1:
            raise AnalysisError(f"R02.2: Results(...) construction not found in {cname}.run")
        arg = rs[0].args[idx] if len(rs[0].args) > idx else next((k.value for k in rs[0].keywords if k.arg == "mutation_node"), None)
        oo = dd.origins(arg) if arg is not None else set()
        if want == "input":
            res.require(oo == {"self.ts.mutations_node"}, "R02.2", f"core.{cname}.run reports the input's mutation nodes", f"mutation_node field originates from {sorted(oo)}", repo.loc(f, rs[0]), "self.ts.mutations_node")
        else:
            res.require(oo == {"fit_obj.mutation_mapping()"}, "R02.2", f"core.{cname}.run reports the fit's mutation mapping", f"mutation_node field originates from {sorted(oo)}", repo.loc(f, rs[0]), "fit_obj.mutation_mapping()")
    mm = repo.fn("variational", "ExpectationPropagation.mutation_mapping")
    rets = [n for n in own_nodes(mm) if isinstance(n, ast.Return)]
    res.require(len(rets) == 1 and U(rets[0].value) == "self.mutation_nodes", "R02.2", "variational.ExpectationPropagation.mutation_mapping returns self.mutation_nodes", f"returns `{U(rets[0].value) if rets else None}`", repo.loc(mm))
    # all stores to self.mutation_nodes in the class
    n_init = n_masked = 0
    for q, f in repo.mods["variational"].funcs.items():
        if not q.startswith("ExpectationPropagation.") or q.count(".") != 1:
            continue
        dd = Defs(f)
        for s, g in stmts(f):
            if not isinstance(s, (ast.Assign, ast.AugAssign)):
                continue
            for t in s.targets if isinstance(s, ast.Assign) else [s.target]:
                if U(t) == "self.mutation_nodes":
                    n_init += 1
                    res.require(f.name == "__init__" and U(s.value) in ("ts.mutations_node.copy()", "self.ts.mutations_node.copy()"), "R02.2", f"variational.{q} initialises mutation_nodes as a copy of the input column", f"`{U(s)}`", repo.loc(f, s), U(s.value))
                elif isinstance(t, ast.Subscript) and U(t.value) == "self.mutation_nodes":
                    n_masked += 1
                    mo = dd.origins(t.slice)
                    ok = mo == {"self.mutation_blocks != tskit.NULL"}
                    vo = U(s.value)
                    okv = vo.startswith("self.edge_children[")
                    res.require(ok and okv, "R02.2", f"variational.{q} rewrites mutation nodes only for unphased singletons", f"`{U(s)}`: mask originates from {sorted(mo)}", repo.loc(f, s), f"mask {sorted(mo)}; value {vo}")
    if n_init == 0:
        raise AnalysisError("R02.2: no initialisation of self.mutation_nodes found (anchor vanished)")
    # (a second whole-array binding outside __init__ was already reported above as a violation)
    # kernels receive mutation_nodes? they must not (no in-place change elsewhere)
    for q, f in repo.mods["variational"].funcs.items():
        for n in own_nodes(f):
            if isinstance(n, ast.Call) and any(U(a) == "self.mutation_nodes" for a in n.args):
                res.bad("R02.2", f"variational.{q} passes mutation_nodes to `{U(n.func)}`", "the array may be modified in place by the callee", repo.loc(f, n))


VARIANTS = [
    dict(name="decode-skipped-for-own-schema", mod="core", expect="fire", rule="R02.3", old="            if len(table.metadata) > 0:\n                md_iter", new="            if len(table.metadata) > 0 and schema != default_schema:\n                md_iter"),
    dict(name="mutation-node-written-after-sort", mod="core", expect="fire", rule="R02.4", old="        mutations.node = mut_node\n", new="", edits=[("core", "        mutations.node = mut_node\n", ""), ("core", "        tables.sort()  # need to sort before computing parents and times\n", "        tables.sort()  # need to sort before computing parents and times\n        mutations.node = mut_node\n")]),
    dict(name="flags-written", mod="core", expect="fire", rule="R02.1", old="        mutations.node = mut_node\n", new="        mutations.node = mut_node\n        nodes.flags = nodes.flags\n"),
    dict(name="simplify-output", mod="core", expect="fire", rule="R02.1", old="        tables.build_index()\n        # If mutation", new="        tables.build_index()\n        tables.simplify()\n        # If mutation"),
    dict(name="sites-truncated", mod="core", expect="fire", rule="R02.1", old="        tables.time_units = self.time_units\n", new="        tables.time_units = self.time_units\n        tables.sites.truncate(tables.sites.num_rows)\n"),
    dict(name="metadata-elsewhere", mod="core", expect="fire", rule="R02.1", old="        mutations.node = mut_node\n", new="        mutations.node = mut_node\n        tables.edges.drop_metadata()\n"),
    dict(name="individuals-metadata", mod="core", expect="fire", rule="R02.1", old="        self.set_time_metadata(\n            mutations, mut_mean_t, mut_var_t, schemas.default_mutation_schema\n        )", new="        self.set_time_metadata(\n            tables.individuals, mut_mean_t, mut_var_t, schemas.default_mutation_schema\n        )"),
    dict(name="mutation-nodes-unmasked", mod="variational", expect="fire", rule="R02.2", old="        self.mutation_nodes[singletons] = self.edge_children[switched_edges]", new="        self.mutation_nodes[:] = self.edge_children[self.mutation_edges]"),
    dict(name="discrete-changes-nodes", mod="core", expect="fire", rule="R02.2", old="        fit_obj.outside_maximization(eps=eps)\n        mut_node = self.ts.mutations_node\n", new="        fit_obj.outside_maximization(eps=eps)\n        mut_node = self.ts.edges_child[self.mutations_edge]\n"),
    dict(name="twin-alias-tables", mod="core", expect="silent", old="        tables.sort()  # need to sort before computing parents and times\n", new="        tc = tables\n        tc.sort()  # need to sort before computing parents and times\n"),
]
