"""C03 (+ shared with C27) -- sample times kept except the minimal push; constraint minimal and idempotent."""

import ast

from . import flagsrule
from ..base import AnalysisError, Defs, U, bool_guards, formula, guards_formula, implies, own_nodes, stmts, walk_guarded


def kernel_parts(repo):
    f = repo.fn("util", "_constrain_ages")
    loops = [s for s in f.body if isinstance(s, (ast.For, ast.While))]
    if len(loops) < 2:
        raise AnalysisError("_constrain_ages: least-squares loop and forced pass not found")
    ret = f.body[-1]
    tvar = U(ret.value) if isinstance(ret, ast.Return) else None
    return f, loops[0], loops[-1], tvar


def edge_vars(loop_body, idx):
    p = c = None
    for s in loop_body:
        if isinstance(s, ast.Assign) and isinstance(s.targets[0], ast.Tuple) and isinstance(s.value, ast.Tuple):
            for t, v in zip(s.targets[0].elts, s.value.elts):
                if U(v) == f"edges_parent[{idx}]":
                    p = U(t)
                if U(v) == f"edges_child[{idx}]":
                    c = U(t)
    return p, c


def r031(repo, res, rid="R03.1"):
    f, ls, forced, tvar = kernel_parts(repo)
    inner = [s for s in ls.body if isinstance(s, ast.For)]
    if len(inner) != 1:
        raise AnalysisError("R03.1: per-edge loop of the least-squares phase not found")
    eloop = inner[0]
    e = U(eloop.target)
    p, c = edge_vars(eloop.body, e)
    if not p or not c:
        raise AnalysisError("R03.1: parent/child of the edge not bound")
    # slot <-> node mapping from the statements that apply the corrections
    slot_node = {}
    corr = None
    for s in eloop.body:
        if isinstance(s, ast.AugAssign) and isinstance(s.op, ast.Add) and isinstance(s.target, ast.Subscript) and U(s.target.value) == tvar and isinstance(s.value, ast.Subscript):
            corr = U(s.value.value)
            slot = U(s.value.slice.elts[1])
            slot_node[slot] = U(s.target.slice)
    if sorted(slot_node.values()) != sorted([p, c]):
        raise AnalysisError(f"R03.1: correction slots not recognised ({slot_node})")
    n = 0
    for s, g in walk_guarded(eloop.body):
        if isinstance(s, ast.Assign) and isinstance(s.targets[0], ast.Subscript) and U(s.targets[0].value) == corr and isinstance(s.targets[0].slice, ast.Tuple):
            slot = U(s.targets[0].slice.elts[1])
            if slot not in slot_node:
                continue  # whole-row reset
            if U(s.value) in ("0", "0.0"):
                continue
            n += 1
            node = slot_node[slot]
            want = ("not", ("atom", f"nodes_fixed[{node}]"))
            ok = implies(guards_formula(g), want)
            res.require(ok, rid, f"util._constrain_ages correction `{U(s)}` moves node {node} only if it is not fixed", f"the store is not control-dependent on `not nodes_fixed[{node}]`: the least-squares phase would move a sample", repo.loc(f, s), f"guards imply not nodes_fixed[{node}]")
    res.floor("least_squares_correction_stores", n, 4)
    # corrections are removed before being recomputed (cavity) for the same slots
    subs = [U(s.target.slice) for s in eloop.body if isinstance(s, ast.AugAssign) and isinstance(s.op, ast.Sub) and isinstance(s.target, ast.Subscript) and U(s.target.value) == tvar]
    res.require(sorted(subs) == sorted([p, c]), rid, "util._constrain_ages removes the previous correction of both ends before recomputing it", f"subtracts for {subs}", repo.loc(f, eloop))


def r032(repo, res, rid="R03.2"):
    """minimality: the forced store writes exactly the violated bound"""
    f, ls, forced, tvar = kernel_parts(repo)
    e = U(forced.target)
    p, c = edge_vars(forced.body, e)
    tp, tc = f"{tvar}[{p}]", f"{tvar}[{c}]"
    d = {}
    for s in forced.body:
        if isinstance(s, ast.Assign) and isinstance(s.targets[0], ast.Name):
            d[s.targets[0].id] = U(s.value).replace(" ", "")
    X = {f"{tc}+epsilon", f"epsilon+{tc}"} | {k for k, v in d.items() if v in (f"{tc}+epsilon", f"epsilon+{tc}")}
    n = 0
    for s, g in walk_guarded(forced.body):
        if isinstance(s, ast.Assign) and isinstance(s.targets[0], ast.Subscript) and U(s.targets[0].value) == tvar:
            n += 1
            v = s.value
            txt = U(v).replace(" ", "")
            cons = f"util._constrain_ages forced store `{U(s.targets[0])}` writes exactly the violated bound"
            # accepted: X ; max(X, nextafter(t[c], inf)) ; nextafter(X, inf); max(t[p], ...)
            parts = [txt]
            if isinstance(v, ast.Call) and U(v.func) in ("max", "np.maximum"):
                parts = [U(a).replace(" ", "") for a in v.args]
            okv = any(x in X for x in parts) and all(x in X or x == tp or x.startswith(("np.nextafter(", "nextafter(")) for x in parts)
            gs = bool_guards(g)
            okg = True
            if gs:
                cmp_ = gs[-1][0]
                okg = isinstance(cmp_, ast.Compare) and len(cmp_.ops) == 1 and (
                    (U(cmp_.left).replace(" ", "") in X and U(cmp_.comparators[0]) == tp and isinstance(cmp_.ops[0], (ast.Gt, ast.GtE)))
                    or (U(cmp_.left) == tp and U(cmp_.comparators[0]).replace(" ", "") in X and isinstance(cmp_.ops[0], (ast.Lt, ast.LtE)))
                )
            else:
                okg = tp in parts  # unconditional max(t[p], X)
            res.require(okv and okg and U(s.targets[0]) == tp, rid, cons, f"`{U(s)}` under `{U(gs[-1][0]) if gs else 'no guard'}`: the stored value is not the bound t[c] + eps whose violation is tested (times would be raised more than needed, or a different node is moved)", repo.loc(f, s), f"if t[c]+eps >= t[p]: t[p] = bound")
    if n != 1:
        raise AnalysisError(f"{rid}: expected one store in the forced pass, found {n}")


def r271(repo, res, rid="R27.1"):
    f, ls, forced, tvar = kernel_parts(repo)
    # the early exit precedes every store of its iteration
    first = ls.body[0]
    ok = isinstance(first, ast.If) and isinstance(first.body[0], ast.Return) and U(first.body[0].value) == tvar
    res.require(ok, rid, "util._constrain_ages satisfied inputs leave through the early exit before any store of the iteration", "the early return is not the first statement of the least-squares iteration", repo.loc(f, ls))
    d = Defs(f)
    cp = [v for v in d.values(tvar) if isinstance(v, ast.Call) and U(v) == f"{tvar}.copy()"]
    res.require(len(cp) == 1, rid, "util._constrain_ages never writes the caller's array", f"`{tvar}` is not rebound to a copy before the first store", repo.loc(f))
    # with max_iterations == 0 only the forced pass can write
    between = [s for s in f.body if s is not ls and s is not forced and isinstance(s, (ast.For, ast.While))]
    res.require(not between, rid, "util._constrain_ages has no writing phase besides the least-squares loop and the forced pass", "an additional loop modifies the times", repo.loc(f))
    # the loop count is the parameter
    it = ls.iter
    ok = isinstance(it, ast.Call) and U(it.func) == "range" and U(it.args[0]) == "max_iterations"
    res.require(ok, rid, "util._constrain_ages least-squares phase runs max_iterations times (0 = off)", f"loop over `{U(it)}`", repo.loc(f, ls))
    # default of the public path: constr_iterations is 0 when all samples are contemporaneous
    init = repo.fn("core", "EstimationMethod.__init__")
    sts = [(s, g) for s, g in stmts(init) if isinstance(s, ast.Assign) and U(s.targets[0]) == "self.constr_iterations"]
    vals = sorted(U(s.value) for s, g in sts)
    res.require(vals == ["0", "DEFAULT_CONSTRAINT_ITERATIONS", "constr_iterations"], rid, "core.EstimationMethod.__init__ least-squares default is off unless sample ages differ", f"assignments: {vals}", repo.loc(init))
    for s, g in sts:
        if U(s.value) == "DEFAULT_CONSTRAINT_ITERATIONS":
            di = Defs(init)

            def distinct_sample_ages(e):
                # `np.unique(<sample times>).size > 1` (temporaries inlined)
                e = di.inline(e)
                if not (isinstance(e, ast.Compare) and len(e.ops) == 1 and isinstance(e.ops[0], ast.Gt) and U(e.comparators[0]) == "1"):
                    return False
                x = e.left
                if isinstance(x, ast.Call) and U(x.func) == "len" and len(x.args) == 1:
                    x = x.args[0]
                elif isinstance(x, ast.Attribute) and x.attr == "size":
                    x = x.value
                else:
                    return False
                return isinstance(x, ast.Call) and U(x.func) == "np.unique" and "nodes_time" in U(x.args[0]) and "samples()" in U(x.args[0])

            ok = any(pol and distinct_sample_ages(e) for e, pol in bool_guards(g))
            res.require(ok, rid, "core.EstimationMethod.__init__ least-squares only when samples are not contemporaneous", "guard `np.unique(<sample times>).size > 1` missing", repo.loc(init, s))


def r034(repo, res, rid="R03.4"):
    nm = repo.fn("variational", "ExpectationPropagation.node_moments")
    d = Defs(nm)
    rets = [r for r in own_nodes(nm) if isinstance(r, ast.Return)]
    mn, va = (U(x) for x in rets[0].value.elts)
    okm = any(U(v).replace(" ", "") in ("np.ascontiguousarray(self.node_constraints[:,0])", "self.node_constraints[:,0].copy()") for v in d.values(mn) if isinstance(v, ast.AST))
    okv = any(U(v).replace(" ", "").startswith("np.zeros(") for v in d.values(va) if isinstance(v, ast.AST))
    free = None
    stores = []
    for s, g in stmts(nm):
        if isinstance(s, ast.Assign) and isinstance(s.targets[0], ast.Subscript) and U(s.targets[0].value) in (mn, va):
            stores.append(s)
    okmask = all(d.origins(s.targets[0].slice) == {"self.node_constraints[:, 0] != self.node_constraints[:, 1]"} for s in stores) and len(stores) == 2
    res.require(okm and okv and okmask, rid, "variational.ExpectationPropagation.node_moments reports the fixed constraint (variance 0) for sample nodes", f"means init ok={okm}, variances zero-init={okv}, overwrites masked by lower != upper: {okmask}", repo.loc(nm))
    mv = repo.fn("core", "DiscreteTimeMethod.mean_var")
    ok = False
    body = [U(s).replace(" ", "") for s in mv.body]
    ok = "mn_post[is_fixed]=ts.nodes_time[is_fixed]" in body and "va_post[is_fixed]=0" in body and "is_fixed[posterior.nonfixed_nodes]=False" in body and "is_fixed=np.ones(posterior.num_nodes,dtype=bool)" in body
    loops = [s for s in mv.body if isinstance(s, ast.For)]
    okl = len(loops) == 1 and U(loops[0].iter) == "posterior.nonfixed_nodes" and all(isinstance(s, ast.Assign) and (not isinstance(s.targets[0], ast.Subscript) or U(s.targets[0].slice) == U(loops[0].target)) for s in loops[0].body)
    res.require(ok and okl, rid, "core.DiscreteTimeMethod.mean_var reports exact time and zero variance for fixed nodes and overwrites only non-fixed rows", "fixed initialisation / non-fixed loop shape not found", repo.loc(mv))


def run(repo, res):
    from . import sampleorder

    res.rule("R03.6", "sample nodes are identified by ts.samples() / the NODE_IS_SAMPLE bit, never by position in the node table: num_samples is used as a count only (no slice bound, no id range, no ordering comparison with a node id)")
    sampleorder.run(repo, res, "R03.6", floor=1, scope=["core", "variational", "discrete", "util.constrain_ages", "util._constrain_ages"])
    res.rule("R03.1", "in the least-squares phase every non-zero correction of a node's time is control-dependent on that node not being fixed (slot-to-node mapping read from the statements that apply the corrections)")
    res.rule("R03.2", "the forced pass stores exactly the violated bound t[c] (+) eps (possibly strengthened by nextafter) into the parent's slot")
    res.rule("R03.3", "after the least-squares loop the only stores to the time vector index the edge's parent")
    res.rule("R03.4", "node_moments / mean_var report fixed nodes at their constraint with zero variance and overwrite only free nodes")
    res.rule("R03.5", "sample (fixed) status is never decided by comparing the whole node-flags word: every read of nodes_flags / .flags is a bitwise test or a whole-column move (samples may carry further flag bits, e.g. tsinfer's historical-sample bit)")
    r031(repo, res)
    r032(repo, res)
    flagsrule.run(repo, res, "R03.5", floor=3, scope=["core", "variational", "discrete", "rescaling", "phasing", "prior", "node_time_class", "util.constrain_ages", "util._constrain_ages", "util.mutation_span_array"])
    f, ls, forced, tvar = kernel_parts(repo)
    e = U(forced.target)
    p, c = edge_vars(forced.body, e)
    after = f.body[f.body.index(ls) + 1 :]
    bad = []
    for s in after:
        for n in ast.walk(s):
            if isinstance(n, (ast.Assign, ast.AugAssign)):
                for t in n.targets if isinstance(n, ast.Assign) else [n.target]:
                    if isinstance(t, ast.Subscript) and U(t.value) == tvar and U(t.slice) != p:
                        bad.append(U(t))
    res.require(not bad, "R03.3", "util._constrain_ages after the least-squares phase only parents are moved", f"stores to {bad}", repo.loc(f, forced))
    r034(repo, res)


VARIANTS = [dict(v, rule="R03.6") for v in __import__("sa.rules.sampleorder", fromlist=["VARIANTS"]).VARIANTS if v["mod"] == "core"] + flagsrule.VARIANTS_C03 + [
    dict(name="fixed-child-moved", mod="util", expect="fire", rule="R03.1", old="                elif nodes_fixed[c] and not nodes_fixed[p]:\n                    edges_cavity[e, 0] = 0\n                    edges_cavity[e, 1] = adjustment", new="                elif nodes_fixed[c] and not nodes_fixed[p]:\n                    edges_cavity[e, 0] = -adjustment / 2\n                    edges_cavity[e, 1] = adjustment / 2"),
    dict(name="fixed-test-swapped", mod="util", expect="fire", rule="R03.1", old="                elif not nodes_fixed[c] and nodes_fixed[p]:\n                    edges_cavity[e, 0] = -adjustment\n                    edges_cavity[e, 1] = 0", new="                elif not nodes_fixed[c] and nodes_fixed[p]:\n                    edges_cavity[e, 0] = 0\n                    edges_cavity[e, 1] = adjustment"),
    dict(name="slots-swapped-at-application", mod="util", expect="fire", rule="R03.1", old="            nodes_time[c] += edges_cavity[e, 0]\n            nodes_time[p] += edges_cavity[e, 1]", new="            nodes_time[c] += edges_cavity[e, 1]\n            nodes_time[p] += edges_cavity[e, 0]"),
    dict(name="overshoot", mod="util", expect="fire", rule="R03.2", old="                nodes_time[c] + epsilon, np.nextafter(nodes_time[c], np.inf)\n", new="                nodes_time[c] + 2 * epsilon, np.nextafter(nodes_time[c], np.inf)\n"),
    dict(name="forced-moves-child", mod="util", expect="fire", rule="R03", old="            nodes_time[p] = max(\n                nodes_time[c] + epsilon, np.nextafter(nodes_time[c], np.inf)\n            )", new="            nodes_time[c] = nodes_time[p] - epsilon"),
    dict(name="fixed-variance-nonzero", mod="variational", expect="fire", rule="R03.4", old="        nodes_va = np.zeros(nodes_mn.size)", new="        nodes_va = np.ones(nodes_mn.size)"),
    dict(name="fixed-mean-overwritten", mod="variational", expect="fire", rule="R03.4", old="        nodes_mn[free] = (alpha[free] + 1) / beta[free]", new="        nodes_mn[:] = (alpha + 1) / beta"),
    dict(name="twin-temp-bound", mod="util", expect="silent", old="        if nodes_time[c] + epsilon >= nodes_time[p]:\n            # for large ages `epsilon` is absorbed, so step to the next float\n            nodes_time[p] = max(\n                nodes_time[c] + epsilon, np.nextafter(nodes_time[c], np.inf)\n            )", new="        bound = nodes_time[c] + epsilon\n        if bound >= nodes_time[p]:\n            nodes_time[p] = max(bound, np.nextafter(nodes_time[c], np.inf))"),
]
