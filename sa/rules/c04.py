"""C04 -- metadata posteriors equal the fit object's posteriors (single source + typestate)."""

import ast

from ..base import AnalysisError, Defs, U, bool_guards, own_nodes, stmts
from ..paths import enum_paths
from .c02 import results_fields


def self_writers(repo, mod, cls):
    """methods of a class that (transitively through self.method calls) store to self.* state"""
    direct = {}
    calls = {}
    for q, f in repo.mods[mod].funcs.items():
        if q.startswith(cls + ".") and q.count(".") == 1:
            w = False
            for n in own_nodes(f):
                if isinstance(n, (ast.Assign, ast.AugAssign)):
                    for t in n.targets if isinstance(n, ast.Assign) else [n.target]:
                        for el in t.elts if isinstance(t, ast.Tuple) else [t]:
                            b = el
                            while isinstance(b, ast.Subscript):
                                b = b.value
                            if isinstance(b, ast.Attribute) and U(b.value) == "self":
                                w = True
            # passing self state to a compiled kernel whose parameter is writable mutates it too
            from ..e2 import E2
            from .common import engine

            e2 = engine(repo, E2)
            for c in own_nodes(f):
                if isinstance(c, ast.Call):
                    for t in repo.resolve_call(f, c):
                        sg = e2.sigs.get(t) if isinstance(t, ast.FunctionDef) else None
                        if sg is None:
                            continue
                        for a, ty_ in zip(c.args, sg.args):
                            if U(a).startswith("self.") and ((ty_.kind == "arr" and ty_.writable) or ty_.kind == "obj"):
                                w = True
            direct[f.name] = w
            calls[f.name] = {c.func.attr for c in own_nodes(f) if isinstance(c, ast.Call) and isinstance(c.func, ast.Attribute) and U(c.func.value) == "self"}
    changed = True
    while changed:
        changed = False
        for m in direct:
            if not direct[m] and any(direct.get(c) for c in calls[m]):
                direct[m] = True
                changed = True
    return {m for m, w in direct.items() if w}


def run(repo, res):
    from . import rowspace

    res.rule("R04.5", "the moments written to metadata belong to the node whose posterior row they were computed from: anything computed over whole grid rows is assigned to nodes only through the grid's own nonfixed_nodes order, never through a mask / arange (ascending-id order)")
    rowspace.run(repo, res, "R04.5", scope=["core", "node_time_class"])
    res.rule("R04.1", "single source: the values written as mn/vr metadata and the values returned by node_posteriors()/mutation_posteriors() are pure copies of node_moments()/mutation_moments() (variational) -- through Results by field position and through get_modified_ts -> set_time_metadata with no arithmetic in between; every Results(...) argument comes from the producer matching the field at that position")
    res.rule("R04.2", "typestate of the fit object: no state-changing method of the fit object is called after the first moment extraction in run()")
    res.rule("R04.3", "inside_outside: standardize < force_probability_space(LIN) < to_probabilities < mean_var on the posterior grid and nothing mutating afterwards; to_probabilities divides each row by its sum under a non-negativity assertion; sample rows get (input time, 0)")
    res.rule("R04.4", "maximization passes the literal None as the variance field and set_time_metadata returns before any table effect when the variance is None")
    fields = results_fields(repo)
    gm = repo.fn("core", "EstimationMethod.get_modified_ts")
    d = Defs(gm)
    calls = [c for c in own_nodes(gm) if isinstance(c, ast.Call) and U(c.func) == "self.set_time_metadata"]
    if len(calls) != 2:
        raise AnalysisError("R04.1: expected two set_time_metadata calls in get_modified_ts")
    want = {"nodes": ("result.posterior_mean", "result.posterior_var"), "mutations": ("result.mutation_mean", "result.mutation_var")}
    for c in calls:
        tab = "nodes" if d.origins(c.args[0]) == {"tables.nodes"} else ("mutations" if d.origins(c.args[0]) == {"tables.mutations"} else None)
        om, ov = d.origins(c.args[1]), d.origins(c.args[2])
        ok = tab is not None and om == {want[tab][0]} and ov == {want[tab][1]}
        res.require(ok, "R04.1", f"core.get_modified_ts metadata of {tab} table = the Results fields {want.get(tab)}", f"table {sorted(d.origins(c.args[0]))}, mean from {sorted(om)}, variance from {sorted(ov)}", repo.loc(gm, c), f"{sorted(om)}, {sorted(ov)}")
    # set_time_metadata writes mean/var unchanged
    stm = repo.mods["core"].funcs["EstimationMethod.set_time_metadata._time_md_array"]
    lp = [n for n in own_nodes(stm) if isinstance(n, ast.For)]
    ok = bool(lp) and U(lp[-1].iter).replace(" ", "") == "zip(md_iter,mean,var)" and "(('mn',mn),('vr',vr))" in U(lp[-1]).replace(" ", "").replace('"', "'")
    res.require(ok, "R04.1", "core.set_time_metadata rows carry (mn, vr) = (mean[i], var[i]) unchanged", "row builder transforms the values", repo.loc(stm))
    outer = repo.fn("core", "EstimationMethod.set_time_metadata")
    pc = [c for c in own_nodes(outer) if isinstance(c, ast.Call) and U(c.func) == "_time_md_array"]
    res.require(bool(pc) and all([U(a) for a in c.args] == ["table", "mean", "var"] for c in pc), "R04.1", "core.set_time_metadata passes its mean/var to the row builder unchanged", "arguments transformed", repo.loc(outer))
    # Results construction per method
    run_v = repo.fn("core", "VariationalGammaMethod.run")
    dv = Defs(run_v)
    rs = [c for c in own_nodes(run_v) if isinstance(c, ast.Call) and U(c.func) == "Results"]
    if len(rs) != 1:
        raise AnalysisError("R04.1: Results construction not found in VariationalGammaMethod.run")
    prod = {
        "posterior_mean": "fit_obj.node_moments()[0]", "posterior_var": "fit_obj.node_moments()[1]",
        "mutation_mean": "fit_obj.mutation_moments()[0]", "mutation_var": "fit_obj.mutation_moments()[1]",
        "mutation_lik": "fit_obj.marginal_likelihood()", "mutation_node": "fit_obj.mutation_mapping()", "fit_object": "variational.ExpectationPropagation(self.ts, mutation_rate=self.mutation_rate, allow_unary=self.allow_unary, singletons_phased=singletons_phased)",
    }  # fmt: skip
    for i, fld in enumerate(fields):
        a = rs[0].args[i] if i < len(rs[0].args) else next((k.value for k in rs[0].keywords if k.arg == fld), None)
        o = dv.origins(a) if a is not None else set()
        if fld == "fit_object":
            # the fit object is the ExpectationPropagation instance the moments were taken from (argument order irrelevant)
            okf = len(o) == 1 and next(iter(o)).startswith("variational.ExpectationPropagation(") and dv.origins(ast.Name("fit_obj", ast.Load())) == o
            res.require(okf, "R04.1", f"core.VariationalGammaMethod.run Results.{fld} comes from its producer", f"position {i} originates from {sorted(o)}, expected the ExpectationPropagation instance bound to fit_obj", repo.loc(run_v, rs[0]), "fit_obj")
            continue
        res.require(o == {prod[fld]}, "R04.1", f"core.VariationalGammaMethod.run Results.{fld} comes from its producer", f"position {i} originates from {sorted(o)}, expected {prod[fld]}", repo.loc(run_v, rs[0]), prod[fld][:50])
    # node_posteriors()/mutation_posteriors() fill mean/variance from the same methods
    for meth, src in (("node_posteriors", "self.node_moments()"), ("mutation_posteriors", "self.mutation_moments()")):
        f = repo.fn("variational", f"ExpectationPropagation.{meth}")
        df = Defs(f)
        st = {U(s.targets[0].slice): s.value for s, g in stmts(f) if isinstance(s, ast.Assign) and isinstance(s.targets[0], ast.Subscript) and U(s.targets[0].value) == "data"}
        ok = set(st) == {"'mean'", "'variance'"} and df.origins(st["'mean'"]) == {f"{src}[0]"} and df.origins(st["'variance'"]) == {f"{src}[1]"}
        res.require(ok, "R04.1", f"variational.ExpectationPropagation.{meth} reports {src} unchanged", f"fields filled from {{k: sorted(df.origins(v)) for k, v in st.items()}}", repo.loc(f))
    # R04.2
    writers = self_writers(repo, "variational", "ExpectationPropagation")
    for p in [p for p in enum_paths(run_v) if p.exit == "return"]:
        seq = [c.func.attr for c in p.calls() if isinstance(c.func, ast.Attribute) and U(c.func.value) == "fit_obj"]
        first = next((i for i, m in enumerate(seq) if m in ("node_moments", "mutation_moments", "mutation_mapping")), None)
        late = [m for m in seq[first + 1 :] if m in writers] if first is not None else ["<no extraction>"]
        res.require(first is not None and not late, "R04.2", "core.VariationalGammaMethod.run extracts moments after the last state change of the fit", f"state-changing calls after extraction: {late} (sequence {seq})", repo.loc(run_v), " < ".join(seq))
    res.analysed["fit_state_writers"] = sorted(writers)
    if not {"infer", "iterate", "rescale"} <= writers:
        raise AnalysisError(f"R04.2: effect analysis lost the known writers ({sorted(writers)})")
    for m in ("node_moments", "mutation_moments", "node_posteriors", "mutation_posteriors", "mutation_mapping"):
        res.require(m not in writers, "R04.2", f"variational.ExpectationPropagation.{m} does not modify the fit", "the accessor stores to self.*", repo.loc(repo.fn("variational", f"ExpectationPropagation.{m}")))
    # R04.3
    run_io = repo.fn("core", "InsideOutsideMethod.run")
    di = Defs(run_io)
    for p in [p for p in enum_paths(run_io) if p.exit == "return"]:
        seq = []
        for c in p.calls():
            fn = U(c.func)
            if "posterior_grid" in fn or fn in ("self.mean_var", "fit_obj.outside_pass", "fit_obj.inside_pass"):
                seq.append(fn.split(".")[-1] + (f"({U(c.args[0])})" if fn.endswith("force_probability_space") else ""))
        want_seq = ["inside_pass", "outside_pass", "standardize", "force_probability_space(LIN_GRID)", "to_probabilities", "mean_var"]
        res.require(seq == want_seq, "R04.3", "core.InsideOutsideMethod.run posterior grid pipeline", f"sequence {seq}", repo.loc(run_io), " < ".join(seq))
    rs = [c for c in own_nodes(run_io) if isinstance(c, ast.Call) and U(c.func) == "Results"]
    o0, o1 = di.origins(rs[0].args[0]), di.origins(rs[0].args[1])
    src = "self.mean_var(self.ts, fit_obj.posterior_grid)"
    res.require(o0 == {f"{src}[0]"} and o1 == {f"{src}[1]"}, "R04.3", "core.InsideOutsideMethod.run reports mean_var of the posterior grid", f"{sorted(o0)}, {sorted(o1)}", repo.loc(run_io))
    tp = repo.fn("node_time_class", "NodeTimeValues.to_probabilities")
    t = U(tp).replace(" ", "")
    res.require("assertnotnp.any(self.grid_data<0)" in t and "self.grid_data=self.grid_data/self.grid_data.sum(axis=1)[:,np.newaxis]" in t, "R04.3", "node_time_class.NodeTimeValues.to_probabilities divides each row by its sum after asserting non-negativity", "normalisation differs", repo.loc(tp))
    mv = repo.fn("core", "DiscreteTimeMethod.mean_var")
    t = U(mv).replace(" ", "")
    res.require("mn_post[is_fixed]=ts.nodes_time[is_fixed]" in t and "va_post[is_fixed]=0" in t, "R04.3", "core.DiscreteTimeMethod.mean_var sample rows report (input time, 0)", "fixed rows differ", repo.loc(mv))
    # R04.4
    run_m = repo.fn("core", "MaximizationMethod.run")
    rs = [c for c in own_nodes(run_m) if isinstance(c, ast.Call) and U(c.func) == "Results"]
    iv = fields.index("posterior_var")
    res.require(len(rs) == 1 and U(rs[0].args[iv]) == "None" and U(rs[0].args[fields.index("mutation_var")]) == "None", "R04.4", "core.MaximizationMethod.run passes None as both variance fields", f"variance fields: {U(rs[0].args[iv]) if rs else None}", repo.loc(run_m))
    body = [s for s in outer.body if not isinstance(s, ast.FunctionDef)]
    first = body[0]
    ok = isinstance(first, ast.If) and "var is None" in U(first.test) and isinstance(first.body[0], ast.Return) and isinstance(first.test, ast.BoolOp) and isinstance(first.test.op, ast.Or)
    res.require(ok, "R04.4", "core.set_time_metadata returns before any table effect when the variance is None", "the first statement is not `if ... or var is None: return`", repo.loc(outer))


VARIANTS = [dict(v, rule="R04.5") for v in __import__("sa.rules.rowspace", fromlist=["VARIANTS"]).VARIANTS] + [
    dict(name="metadata-from-other-moments", mod="core", expect="fire", rule="R04.1", old="        node_mn, node_va = fit_obj.node_moments()\n        mutation_mn, mutation_va = fit_obj.mutation_moments()", new="        node_mn, node_va = fit_obj.node_moments()\n        node_va = node_va * 1.0\n        mutation_mn, mutation_va = fit_obj.mutation_moments()"),
    dict(name="results-fields-swapped", mod="core", expect="fire", rule="R04.1", old="        return Results(\n            node_mn,\n            node_va,\n            mutation_mn,\n            mutation_va,", new="        return Results(\n            node_mn,\n            node_va,\n            mutation_va,\n            mutation_mn,"),
    dict(name="mutation-metadata-from-node-moments", mod="core", expect="fire", rule="R04.1", old="            mutations, mut_mean_t, mut_var_t, schemas.default_mutation_schema", new="            mutations, mut_mean_t, node_var_t[: len(mut_mean_t)], schemas.default_mutation_schema"),
    dict(name="posteriors-method-recomputes", mod="variational", expect="fire", rule="R04.1", old="        data[\"mean\"] = node_mn\n        data[\"variance\"] = node_va", new="        data[\"mean\"] = node_mn\n        data[\"variance\"] = node_va + 0.0"),
    dict(name="rescale-after-extraction", mod="core", expect="fire", rule="R04.2", old="        mutation_node = fit_obj.mutation_mapping()\n", new="        mutation_node = fit_obj.mutation_mapping()\n        fit_obj.rescale()\n"),
    dict(name="moments-before-normalisation", mod="core", expect="fire", rule="R04.3", old="        fit_obj.posterior_grid.to_probabilities()\n\n        posterior_mean, posterior_var = self.mean_var(self.ts, fit_obj.posterior_grid)", new="        posterior_mean, posterior_var = self.mean_var(self.ts, fit_obj.posterior_grid)\n        fit_obj.posterior_grid.to_probabilities()\n"),
    dict(name="maximization-writes-variance", mod="core", expect="fire", rule="R04.4", old="            fit_obj.posterior_mean,\n            None,\n            None,\n            None,", new="            fit_obj.posterior_mean,\n            fit_obj.posterior_mean * 0,\n            None,\n            None,"),
    dict(name="none-variance-not-short-circuited", mod="core", expect="fire", rule="R04.4", old="        if self.set_metadata is False or var is None:\n            return  # no md to set", new="        if self.set_metadata is False:\n            return  # no md to set"),
    dict(name="twin-rename-locals", mod="core", expect="silent", old="        node_mn, node_va = fit_obj.node_moments()\n        mutation_mn, mutation_va = fit_obj.mutation_moments()\n        mutation_node = fit_obj.mutation_mapping()\n\n        return Results(\n            node_mn,\n            node_va,\n            mutation_mn,\n            mutation_va,", new="        nm, nv = fit_obj.node_moments()\n        mutation_mn, mutation_va = fit_obj.mutation_moments()\n        mutation_node = fit_obj.mutation_mapping()\n\n        return Results(\n            nm,\n            nv,\n            mutation_mn,\n            mutation_va,"),
]
