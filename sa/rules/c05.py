"""C05 -- variational posteriors proper and capped: pairing / gate / wiring clauses."""

import ast

from ..base import AnalysisError, Defs, U, all_params, bind_args, own_nodes, param_default, stmts
from ..paths import enum_paths
from .c21 import node_updates


def run(repo, res):
    res.rule("R05.1", "every store to a node's natural parameters in the EP kernels is followed in the same update, before the next edge is visited, by eta = _rescale(posterior[x], max_shape); posterior[x] *= eta; scale[x] *= eta; the cap closure calls _rescale with the kernel's max_shape")
    res.rule("R05.2", "a skipped node update returns the input parameters unchanged (6 node projection wrappers)")
    res.rule("R05.3", "mutation posteriors start as NaN, are written only from projection results in propagate_mutations and by piecewise_scale_posterior (which writes NaN rows for fixed entries); a failed gate yields a NaN pair")
    res.rule("R05.4", "max_shape reaches every function that has a max_shape parameter as a pure copy of the caller's max_shape (no call site relies on a callee default or passes another value)")
    res.rule("R05.5", "on every path of infer the phase vector is finally folded to [0.5, 1]: entries < 0.5 are replaced by their complement")
    # R05.1 -------------------------------------------------------------------------
    f = repo.fn("variational", "ExpectationPropagation.propagate_likelihood")
    loop, roles, ups = node_updates(repo, f)
    res.floor("node_parameter_stores", len(ups), 5)
    for g, X, role, pcs in ups:
        br = " / ".join(("" if p else "not ") + t for t, p in g.conds[-2:])
        cons = f"variational.propagate_likelihood posterior[{X}] is capped after its update in branch[{br}]"
        if isinstance(pcs, str) or len(pcs["eta"]) != 1:
            res.bad("R05.1", cons, "no `eta = posterior_damping(posterior[x])` follows the store", repo.loc(f, g.proj))
            continue
        E = U(pcs["eta"][0].targets[0])
        caps = sorted(U(s.target) for s in g.block if isinstance(s, ast.AugAssign) and isinstance(s.op, ast.Mult) and U(s.value) == E and s.lineno > pcs["eta"][0].lineno)
        ok = caps == sorted([f"posterior[{X}]", f"scale[{X}]"]) and pcs["eta"][0].lineno > g.proj.lineno
        res.require(ok, "R05.1", cons, f"cap statements found: {caps}", repo.loc(f, g.proj), f"{E}: {caps}")
    for kname in ("propagate_likelihood", "propagate_prior"):
        k = repo.fn("variational", f"ExpectationPropagation.{kname}")
        pd = repo.mods["variational"].funcs.get(f"ExpectationPropagation.{kname}.posterior_damping")
        ok = pd is not None and len(pd.body) == 1 and isinstance(pd.body[0], ast.Return) and U(pd.body[0].value) == f"_rescale({pd.args.args[0].arg}, max_shape)" and "max_shape" in all_params(k)
        res.require(ok, "R05.1", f"variational.{kname} cap closure is _rescale(x, max_shape)", f"posterior_damping is `{U(pd.body[0]) if pd is not None else None}`", repo.loc(k))
    rs = repo.fn("variational", "_rescale")
    d = Defs(rs)
    rets = [U(r.value).replace(" ", "") for r in own_nodes(rs) if isinstance(r, ast.Return)]
    ok = "(s-1)/x[0]" in rets and any(isinstance(s, ast.If) and U(s.test).replace(" ", "") == "1+x[0]>s" for s in rs.body)
    res.require(ok, "R05.1", "variational._rescale scales shape down to the cap when 1 + x[0] > s", f"returns {rets}", repo.loc(rs))
    # R05.2 -------------------------------------------------------------------------
    n = 0
    for q, w in repo.mods["approx"].funcs.items():
        if q.endswith("_projection") and not q.startswith("mutation_") and "." not in q:
            n += 1
            params = [a.arg for a in w.args.args]
            pars = [p for p in params if p.startswith("pars_") and p != "pars_ij"]
            rets = [s for s, g in stmts(w) if isinstance(s, ast.Return)]
            fails = rets[:-1]
            ok = bool(fails) and all(isinstance(r.value, ast.Tuple) and [U(x) for x in r.value.elts[1:]] == pars for r in fails)
            mutated = any(isinstance(t, ast.Subscript) and U(t.value) in pars for s in own_nodes(w) if isinstance(s, (ast.Assign, ast.AugAssign)) for t in (s.targets if isinstance(s, ast.Assign) else [s.target]))
            res.require(ok and not mutated, "R05.2", f"approx.{q} skipped update returns {pars} unchanged", f"failure returns {[U(r.value) for r in fails]}", repo.loc(w), f"{pars}")
    res.floor("node_projection_wrappers", n, 6)
    # R05.3 -------------------------------------------------------------------------
    init = repo.fn("variational", "ExpectationPropagation.__init__")
    ini = [s for s, g in stmts(init) if isinstance(s, ast.Assign) and U(s.targets[0]) == "self.mutation_posterior"]
    ok = len(ini) == 1 and U(ini[0].value).replace(" ", "") == "np.full((ts.num_mutations,2),np.nan)"
    res.require(ok, "R05.3", "variational.ExpectationPropagation.__init__ mutation posteriors start as NaN", f"`{U(ini[0].value) if ini else None}`", repo.loc(init))
    for q, m in repo.mods["variational"].funcs.items():
        if not q.startswith("ExpectationPropagation.") or q.count(".") != 1:
            continue
        for s, g in stmts(m):
            if isinstance(s, (ast.Assign, ast.AugAssign)):
                for t in s.targets if isinstance(s, ast.Assign) else [s.target]:
                    base = t.value if isinstance(t, ast.Subscript) else t
                    if U(base) == "self.mutation_posterior" and m.name != "__init__":
                        ok = m.name == "rescale" and isinstance(s.value, ast.Call) and U(s.value.func) == "piecewise_scale_posterior" and U(s.value.args[0]) == "self.mutation_posterior"
                        res.require(ok, "R05.3", f"variational.{q} writes mutation posteriors only through piecewise_scale_posterior", f"`{U(s)[:70]}`", repo.loc(m, s))
        for c in own_nodes(m):
            if isinstance(c, ast.Call) and any(U(a) == "self.mutation_posterior" for a in c.args):
                fn = U(c.func)
                res.require(fn in ("self.propagate_mutations", "piecewise_scale_posterior"), "R05.3", f"variational.{q} passes mutation_posterior to {fn}", "the array may be modified by a function other than propagate_mutations / piecewise_scale_posterior", repo.loc(m, c))
    pm = repo.fn("variational", "ExpectationPropagation.propagate_mutations")
    nst = 0
    for s, g in stmts(pm):
        if isinstance(s, ast.Assign):
            for t in (s.targets[0].elts if isinstance(s.targets[0], ast.Tuple) else s.targets):
                if isinstance(t, ast.Subscript) and U(t.value) == "mutations_posterior":
                    nst += 1
                    ok = isinstance(s.value, ast.Call) and U(s.value.func).endswith("_projection")
                    res.require(ok, "R05.3", f"variational.propagate_mutations `{U(t)}` is written from a projection result", f"`{U(s)[:60]}`", repo.loc(pm, s))
    res.floor("mutation_posterior_stores", nst, 5)
    for q, w in repo.mods["approx"].funcs.items():
        if q.startswith("mutation_") and q.endswith("_projection"):
            rets = [s for s, g in stmts(w) if isinstance(s, ast.Return)]
            ok = all(isinstance(r.value, ast.Tuple) and [U(x).replace(" ", "") for x in r.value.elts] == ["np.nan", "np.full(2,np.nan)"] for r in rets[:-1]) and len(rets) >= 2
            res.require(ok, "R05.3", f"approx.{q} failed gate yields NaN phase and a NaN pair", f"{[U(r.value) for r in rets[:-1]]}", repo.loc(w))
    psp = repo.fn("rescaling", "piecewise_scale_posterior")
    dd = Defs(psp)
    rets = [r for r in own_nodes(psp) if isinstance(r, ast.Return)]
    newp = U(rets[-1].value)
    ini = dd.single(newp)
    ok = ini is not None and U(ini).replace(" ", "") == "np.full(posteriors.shape,np.nan)"
    wr = [s for s, g in stmts(psp) if isinstance(s, ast.Assign) and isinstance(s.targets[0], ast.Subscript) and U(s.targets[0].value) == newp]
    ok = ok and len(wr) == 1 and any(isinstance(e, str) and e == "loop" and U(n.iter).replace(" ", "") == "np.flatnonzero(freed)" for e, n in stmts(psp)[[x for x, _ in stmts(psp)].index(wr[0])][1])
    res.require(ok, "R05.3", "rescaling.piecewise_scale_posterior returns NaN rows except for free entries", "result array is not NaN-initialised / written outside the free loop", repo.loc(psp))
    # the reprojection is capped
    iq = [c for c in own_nodes(psp) if isinstance(c, ast.Call) and U(c.func) == "approximate_gamma_iqr"]
    ok = len(iq) == 1 and U(iq[0].args[-1]) == "max_shape"
    res.require(ok, "R05.1", "rescaling.piecewise_scale_posterior reprojects with the max_shape cap", "approximate_gamma_iqr is not given max_shape", repo.loc(psp))
    # R05.4 -------------------------------------------------------------------------
    targets = [(m, q, g) for m, q, g in repo.all_funcs() if "max_shape" in all_params(g)]
    n_sites = 0
    for mname, q, g in repo.all_funcs():
        dg = Defs(g)
        for c in own_nodes(g):
            if not isinstance(c, ast.Call):
                continue
            for t in repo.resolve_call(g, c):
                if not isinstance(t, ast.FunctionDef) or "max_shape" not in all_params(t):
                    continue
                if mname == "evaluation":
                    continue
                n_sites += 1
                is_method = t._cls is not None and not any(U(dc) == "staticmethod" for dc in t.decorator_list)
                b = bind_args(c, t, method=is_method)
                cons = f"{mname}.{q} -> {t.name}(max_shape)"
                if "max_shape" not in b:
                    has = "max_shape" in all_params(g) or "max_shape" in dg.defs
                    if "**" in b:
                        res.ok("R05.4", cons, "forwarded in **kwargs", repo.loc(g, c))
                    else:
                        res.require(not has, "R05.4", cons, f"the call omits max_shape and silently uses the callee default {U(param_default(t, 'max_shape'))}", repo.loc(g, c), "caller has no max_shape to forward")
                else:
                    o = dg.origins(b["max_shape"])
                    # closure variable of the enclosing kernel
                    ok = o <= {"<param max_shape>", "max_shape", "1000"} and ("<param max_shape>" in o or "max_shape" in o)
                    res.require(ok, "R05.4", cons, f"max_shape argument originates from {sorted(o)}", repo.loc(g, c), f"{sorted(o)}")
    res.floor("max_shape_call_sites", n_sites, 8)
    # closures inside kernels use the kernel's own parameter
    # R05.5 -------------------------------------------------------------------------
    inf = repo.fn("variational", "ExpectationPropagation.infer")
    di = Defs(inf)
    paths = [p for p in enum_paths(inf) if p.exit in ("fall", "return")]
    for p in paths:
        conds = " and ".join(("" if e[2] else "not ") + U(e[1]) for e in p.conds() if "rescale" in U(e[1])) or "always"
        flips = [s for s in p.stmts() if isinstance(s, ast.Assign) and isinstance(s.targets[0], ast.Subscript) and U(s.targets[0].value) == "self.mutation_phase"]
        ok = False
        detail = "no fold of the phase vector on this path"
        if flips:
            s = flips[-1]
            mo = di.origins(s.targets[0].slice)
            ok = mo == {"self.mutation_phase < 0.5"} and U(s.value).replace(" ", "") == f"1-{U(s.targets[0])}".replace(" ", "")
            detail = f"`{U(s)}` with mask {sorted(mo)}"
            # nothing writes the phase afterwards
            later = [x for x in p.stmts()[p.stmts().index(s) + 1 :] if any(U(a) == "self.mutation_phase" for c in ast.walk(x) if isinstance(c, ast.Call) for a in c.args if U(c.func) == "self.propagate_mutations")]
            ok = ok and not later
        res.require(ok, "R05.5", f"variational.ExpectationPropagation.infer path[{conds}] folds the phase to [0.5, 1] last", detail, repo.loc(inf), detail)


VARIANTS = [
    dict(name="cap-dropped-one-node", mod="variational", expect="fire", rule="R05.1", old="                child_eta = posterior_damping(posterior[c])\n                posterior[c] *= child_eta\n                scale[c] *= child_eta\n            elif fixed[c] and not fixed[p]:", new="            elif fixed[c] and not fixed[p]:"),
    dict(name="cap-uses-constant", mod="variational", expect="fire", rule="R05.1", old="        def posterior_damping(x):\n            return _rescale(x, max_shape)\n\n        def leafward_projection", new="        def posterior_damping(x):\n            return _rescale(x, 1000.0)\n\n        def leafward_projection"),
    dict(name="rescale-default-shape", mod="variational", expect="fire", rule="R05.4", old="                rescale_segsites=rescale_segsites,\n                max_shape=max_shape,\n", new="                rescale_segsites=rescale_segsites,\n"),
    dict(name="iterate-literal-shape", mod="variational", expect="fire", rule="R05.4", old="            self.iterate(\n                max_shape=max_shape,", new="            self.iterate(\n                max_shape=1000,"),
    dict(name="iqr-uncapped", mod="rescaling", expect="fire", rule="R05", old="            quant_lower, quant_upper, lower[i], upper[i], max_shape\n", new="            quant_lower, quant_upper, lower[i], upper[i], np.inf\n"),
    dict(name="skipped-update-resets", mod="approx", expect="fire", rule="R05.2", old="    if not _valid_moments(mn_j, va_j):\n        return np.nan, pars_j\n\n    proj_j = approximate_gamma_mom(mn_j, va_j)\n\n    return logl, np.array(proj_j)\n\n\n@numba_jit(_tuple((_f, _f1r))(_f, _f1r, _f1r))\ndef rootward_projection", new="    if not _valid_moments(mn_j, va_j):\n        return np.nan, pars_ij\n\n    proj_j = approximate_gamma_mom(mn_j, va_j)\n\n    return logl, np.array(proj_j)\n\n\n@numba_jit(_tuple((_f, _f1r))(_f, _f1r, _f1r))\ndef rootward_projection"),
    dict(name="mutation-posterior-zero-init", mod="variational", expect="fire", rule="R05.3", old="        self.mutation_posterior = np.full((ts.num_mutations, 2), np.nan)", new="        self.mutation_posterior = np.zeros((ts.num_mutations, 2))"),
    dict(name="failed-gate-zeros", mod="approx", expect="fire", rule="R05.3", old="    mn_m, va_m = mutation_edge_moments(t_i, t_j)\n\n    if not _valid_moments(mn_m, va_m):\n        return np.nan, np.full(2, np.nan)", new="    mn_m, va_m = mutation_edge_moments(t_i, t_j)\n\n    if not _valid_moments(mn_m, va_m):\n        return np.nan, np.zeros(2)"),
    dict(name="phase-fold-dropped", mod="variational", expect="fire", rule="R05.5", old="        switched = self.mutation_phase < 0.5\n        self.mutation_phase[switched] = 1 - self.mutation_phase[switched]\n", new="        switched = self.mutation_phase < 0.5\n"),
    dict(name="phase-fold-wrong-mask", mod="variational", expect="fire", rule="R05.5", old="        switched = self.mutation_phase < 0.5\n", new="        switched = self.mutation_phase > 0.5\n"),
    dict(name="twin-eta-rename", mod="variational", expect="silent", old="                child_eta = posterior_damping(posterior[c])\n                posterior[c] *= child_eta\n                scale[c] *= child_eta\n            elif fixed[c] and not fixed[p]:", new="                eta_c = posterior_damping(posterior[c])\n                posterior[c] *= eta_c\n                scale[c] *= eta_c\n            elif fixed[c] and not fixed[p]:"),
]
