"""C06 -- changing time units rescales all outputs: dimensional homogeneity in T."""

from .e3rule import run_axis


def run(repo, res):
    res.rule("R06.1", "E3 abstract interpretation of the three dating pipelines (public wrappers -> method classes -> kernels -> output assembly): every add/sub/compare/min/max/where/append/searchsorted joins operands of equal time dimension, exp/lgamma/pmf/cdf take dimensionless arguments, non-zero literals are dimensionless; a clash names the expression")
    res.rule("R06.2", "oracle: declared time dimension of the outputs (node/mutation means T, variances T^2, natural parameters (1, 1/T), grid timepoints T, grid probabilities 1, constrained node times T)")
    run_axis(repo, res, 0, "R06.1", "R06.2")


VARIANTS = [
    dict(name="literal-added-to-rate", mod="approx", expect="fire", rule="R06.1", old="    c = a_j + y_ij + 1\n    t = mu_ij + b_i\n    z = (mu_ij - b_j) / t if t > 0 else nan\n\n    if not _valid_hyp2f1(a, b, c, z):\n        return nan, nan, nan, nan, nan\n", new="    c = a_j + y_ij + 1\n    t = mu_ij + b_i + 1e-12\n    z = (mu_ij - b_j) / t if t > 0 else nan\n\n    if not _valid_hyp2f1(a, b, c, z):\n        return nan, nan, nan, nan, nan\n"),
    dict(name="absolute-threshold-on-time", mod="approx", expect="fire", rule="R06.1", old="    if t_j == 0.0:\n        logl = lgamma(s) - s * log(r)", new="    if t_j < 1e-9:\n        logl = lgamma(s) - s * log(r)"),
    dict(name="mean-times-rate", mod="approx", expect="fire", rule="R06", old="    mn_j = d1 / t\n    sq_j = d2 / t**2\n    va_j = sq_j - mn_j**2\n\n    mn_i = mn_j * z + b / t", new="    mn_j = d1 * t\n    sq_j = d2 / t**2\n    va_j = sq_j - mn_j**2\n\n    mn_i = mn_j * z + b / t"),
    dict(name="regularised-rate", mod="approx", expect="fire", rule="R06.1", old="    rate = mean / variance\n    return shape - 1.0, rate", new="    rate = mean / variance + 1e-8\n    return shape - 1.0, rate"),
    dict(name="variance-minus-mean", mod="approx", expect="fire", rule="R06.1", old="        mn_i = s / r\n        va_i = s / r**2\n        return logl, mn_i, va_i\n", new="        mn_i = s / r\n        va_i = s / r**2 - mn_i\n        return logl, mn_i, va_i\n"),
    dict(name="constraint-threshold", mod="util", expect="fire", rule="R06.1", old="            if adjustment > 0:", new="            if adjustment > 1e-10:"),
    dict(name="grid-eps-literal", mod="discrete", expect="fire", rule="R06.1", old="        self.timediff = self.timepoints - self.timepoints[0] + eps", new="        self.timediff = self.timepoints - self.timepoints[0] + 1e-6"),
    dict(name="prior-cdf-on-natural-scale", mod="prior", expect="fire", rule="R06.1", old="            prior_node = cdf_func(timepoints, main_param[node], scale=scale_param[node])", new="            prior_node = cdf_func(prior_times.timepoints, main_param[node], scale=scale_param[node])"),
    dict(name="rescale-adds-duration", mod="rescaling", expect="fire", rule="R06", old="        assert n > 0, \"Zero edge span in interval\"\n        adjust[k + 1] = z * y / n\n        k += 1\n\n    adjust = np.cumsum(adjust)", new="        assert n > 0, \"Zero edge span in interval\"\n        adjust[k + 1] = z * y / n + 1.0\n        k += 1\n\n    adjust = np.cumsum(adjust)"),
    dict(name="penalty-not-a-rate", mod="variational", expect="fire", rule="R06.1", old="        penalty = 1 / np.mean(shape / rate)", new="        penalty = np.mean(shape / rate)"),
    dict(name="posterior-mean-squared", mod="variational", expect="fire", rule="R06", old="        nodes_va[free] = nodes_mn[free] / beta[free]", new="        nodes_va[free] = nodes_mn[free] * beta[free]"),
    dict(name="maximization-eps-dropped-unit", mod="discrete", expect="fire", rule="R06.1", old="                            parent_time\n                            - self.lik.timepoints[: youngest_par_index + 1]\n                            + eps\n                        )\n                        * self.lik.mut_rate\n                        * edge.span,\n                    )\n                    result = self.lik.ratio(ll_mut, np.max(ll_mut))",
         new="                            parent_time\n                            - self.lik.timepoints[: youngest_par_index + 1]\n                            + 1e-6\n                        )\n                        * self.lik.mut_rate\n                        * edge.span,\n                    )\n                    result = self.lik.ratio(ll_mut, np.max(ll_mut))"),
    dict(name="twin-division-as-product", mod="approx", expect="silent", old="    mn_j = d1 / t\n    sq_j = d2 / t**2\n    va_j = sq_j - mn_j**2\n\n    mn_i = mn_j * z + b / t", new="    mn_j = d1 * (1 / t)\n    sq_j = d2 / (t * t)\n    va_j = sq_j - mn_j * mn_j\n\n    mn_i = mn_j * z + b / t"),
    dict(name="twin-dimensionless-factor", mod="variational", expect="silent", old="        penalty = 1 / np.mean(shape / rate)", new="        penalty = 1.0 * (1 / np.mean(shape / rate))"),
]
