"""C07 -- rescaling genome coordinates with the mutation rate: homogeneity in L."""

from .e3rule import run_axis


def run(repo, res):
    res.rule("R07.1", "E3 abstract interpretation with the second base unit L (edge coordinates, site positions, sequence length, spans : L; mutation rate : 1/(T L)): spans occur only multiplied by the rate or as ratios/weights; a clash names the expression")
    res.rule("R07.2", "oracle: every output and every fitted quantity has L-exponent 0 (edge statistics become (1, 1/T) after multiplication by the rate)")
    run_axis(repo, res, 1, "R07.1", "R07.2")


VARIANTS = [
    dict(name="log-span-weights-live", mod="prior", expect="fire", rule="R07.1", old="    def mixture_expect_and_var(self, mixture, weight_by_log_span=False):", new="    def mixture_expect_and_var(self, mixture, weight_by_log_span=True):"),
    dict(name="span-plus-one", mod="rescaling", expect="fire", rule="R07.1", old="                edges_span[e] += remainder\n            a += 1", new="                edges_span[e] += remainder + 1.0\n            a += 1"),
    dict(name="likelihood-without-span", mod="discrete", expect="fire", rule="R07.1", old="        ll = scipy.stats.poisson.pmf(muts, dt * mutation_rate * span)", new="        ll = scipy.stats.poisson.pmf(muts, dt * mutation_rate)"),
    dict(name="rate-not-applied-to-spans", mod="variational", expect="fire", rule="R07", old="        self.edge_likelihoods[:, 1] *= mutation_rate\n", new=""),
    dict(name="span-threshold", mod="phasing", expect="fire", rule="R07.1", old="                    blocks_span.append(left - individuals_position[i])", new="                    blocks_span.append(max(left - individuals_position[i], 1.0))"),
    dict(name="maximization-span-dropped", mod="discrete", expect="fire", rule="R07.1", old="                        * self.lik.mut_rate\n                        * edge.span,\n                    )\n                    result = self.lik.ratio(ll_mut, np.max(ll_mut))", new="                        * self.lik.mut_rate,\n                    )\n                    result = self.lik.ratio(ll_mut, np.max(ll_mut))"),
    dict(name="spanfrac-not-a-ratio", mod="discrete", expect="fire", rule="R07.1", old="                spanfrac = edge.span / self.spans[edge.child]\n                # Calculate vals for each edge", new="                spanfrac = edge.span\n                # Calculate vals for each edge"),
    dict(name="twin-span-ratio", mod="discrete", expect="silent", old="                spanfrac = edge.span / self.spans[edge.child]\n                # Calculate vals for each edge", new="                spanfrac = (edge.right - edge.left) / self.spans[edge.child]\n                # Calculate vals for each edge"),
]
