"""C08 -- dates depend only on topology, sample times and mutation placement
(information-flow clause: inference code reads the input only through structural accessors)."""

import ast

from . import flagsrule
from ..base import AnalysisError, Defs, U, bool_guards, own_nodes, stmts
from ..callgraph import CallGraph
from ..e4 import TS, Typing, classify
from .common import engine

OUTPUT_ASSEMBLY = (
    ("core", "EstimationMethod.get_modified_ts"),
    ("core", "EstimationMethod.set_time_metadata"),
    ("core", "EstimationMethod.parse_result"),
    ("provenance", "record_provenance"),
    ("provenance", "get_provenance_dict"),
    ("provenance", "get_environment"),
)
BACKSTOP_NAMES = {
    "metadata", "metadata_schema", "derived_state", "ancestral_state", "nodes_population", "populations", "provenances",
    "mutations_derived_state", "sites_ancestral_state", "mutations_metadata", "nodes_metadata", "sites_metadata",
    "individuals_metadata", "migrations", "population", "mutations_time", "mutations_parent", "decode_row", "metadata_offset",
}  # fmt: skip


def scope(repo):
    cg = engine(repo, CallGraph)
    roots = [repo.fn("core", n) for n in ("date", "variational_gamma", "inside_outside", "maximization")]
    stop = [repo.fn(m, q) for m, q in OUTPUT_ASSEMBLY if repo.has_fn(m, q)]
    return cg, roots, cg.reachable(roots, stop=stop)


def run(repo, res):
    from .common import borrow as _borrow

    _borrow(repo, res, "c32", "R32.2", "R08.5", "(= R32.2) the time metadata of a row is built from that row's own decoded metadata plus its own (mn, vr): no row's output depends on the metadata bytes of other rows")
    res.rule("R08.1", "in every function reachable from the dating API (output assembly excluded) no accessor classified irrelevant data (metadata, schemas, states, populations, provenance, migrations, mutation times/parents, tables) is applied to a tskit-typed value; backstop: no attribute with such a name on any receiver")
    res.rule("R08.2", "site positions are read only as sites_position[<mutations_site>]; num_sites / sites() / Tree.sites() (which expose monomorphic sites) do not appear")
    res.rule("R08.3", "individual linkage (nodes_individual, individuals()) is used only behind a test of the unphased mask, and that mask is ~np.full(num_individuals, singletons_phased)")
    res.rule("R08.4", "dates do not depend on node-flag bits other than NODE_IS_SAMPLE: every read of nodes_flags / .flags is a bitwise test or a whole-column move, never a comparison of the whole word")
    flagsrule.run(repo, res, "R08.4", floor=3, scope=["core", "variational", "discrete", "rescaling", "phasing", "prior", "node_time_class", "util.constrain_ages", "util._constrain_ages", "util.mutation_span_array"])
    cg, roots, reach = scope(repo)
    ty = engine(repo, Typing)
    res.count("functions_in_scope", len(reach))
    n_acc = 0
    for f in sorted(reach, key=lambda f: (f._mod, f.lineno)):
        name = f"{f._mod}.{f._qual}"
        for bt, attr, kind, node in ty.accesses(f):
            n_acc += 1
            c = classify(bt, attr)
            loc = repo.loc(f, node)
            cons = f"{name} reads {bt}.{attr}"
            if c is None:
                raise AnalysisError(f"E4: accessor {bt}.{attr} used in {name} is not in the classification table (sa/e4.py) -- extend the table")
            if c == "irrelevant":
                res.bad("R08.1", cons, f"`{U(node)}` reads data that the property says is irrelevant to dating (class: irrelevant data); call chain: {cg.path(roots, f)}", loc)
            elif c == "monomorphic":
                res.bad("R08.2", cons, f"`{U(node)}` enumerates sites (including monomorphic ones); call chain: {cg.path(roots, f)}", loc)
            elif c == "restricted":
                par = repo.mods[f._mod].parent.get(node)
                ok = isinstance(par, ast.Subscript) and par.value is node and "mutations_site" in U(par.slice)
                res.require(ok, "R08.2", f"{name} reads site positions only at mutations", f"`{U(par) if par is not None else U(node)}`: sites_position is not subscripted by a mutations_site column", loc, U(par)[:60] if par is not None else "")
            elif c == "individual":
                pass  # R08.3 below
            elif c in ("mutator",) or (bt.startswith("Table") or bt == "Tables"):
                res.bad("R08.1", cons, f"`{U(node)}`: the inference path touches a table collection; call chain: {cg.path(roots, f)}", loc)
            else:
                res.ok("R08.1", cons, f"{c}", loc)
        # backstop on untyped receivers
        for n in own_nodes(f):
            if isinstance(n, ast.Attribute) and n.attr in BACKSTOP_NAMES and ty.ty(f, n.value) is None:
                res.bad("R08.1", f"{name} reads .{n.attr}", f"`{U(n)}` (receiver type unknown) has the name of an irrelevant-data accessor", repo.loc(f, n))
    res.floor("tskit_accesses_in_scope", n_acc, 150)
    r083(repo, res, ty, reach)


def r083(repo, res, ty, reach):
    # (a) mask origin
    init = repo.fn("variational", "ExpectationPropagation.__init__")
    d = Defs(init)
    calls = [n for n in own_nodes(init) if isinstance(n, ast.Call) and U(n.func) == "block_singletons"]
    if len(calls) != 1:
        raise AnalysisError("R08.3: block_singletons call not found in ExpectationPropagation.__init__")
    mask = calls[0].args[1]
    okm = isinstance(mask, ast.UnaryOp) and isinstance(mask.op, ast.Invert) and d.origins(mask.operand) == {"np.full(ts.num_individuals, singletons_phased)"}
    res.require(okm, "R08.3", "variational.ExpectationPropagation.__init__ unphased mask = ~np.full(num_individuals, singletons_phased)", f"mask is `{U(mask)}` with origins {sorted(d.origins(mask.operand) if isinstance(mask, ast.UnaryOp) else d.origins(mask))}", repo.loc(init, calls[0]))
    # (b) every use of individual linkage in scope is guarded by the mask
    for f in sorted(reach, key=lambda f: (f._mod, f.lineno)):
        name = f"{f._mod}.{f._qual}"
        dd = Defs(f)
        # locals derived from nodes_individual[...] / iteration over individuals()
        ind_vars = set()
        for nme, vals in dd.defs.items():
            for v in vals:
                src = v if isinstance(v, ast.AST) else (v[1] if isinstance(v, tuple) and len(v) > 1 and isinstance(v[1], ast.AST) else None)
                if src is not None and any(isinstance(x, (ast.Name, ast.Attribute)) and (U(x).endswith("nodes_individual") or U(x).endswith("individuals()")) for x in ast.walk(src)):
                    ind_vars.add(nme)
                if src is not None and isinstance(src, ast.Call) and U(src.func).endswith(".individuals"):
                    ind_vars.add(nme)
        if not ind_vars:
            continue
        mask_names = [a.arg for a in f.args.args if "unphased" in a.arg]
        if not mask_names:
            res.bad("R08.3", f"{name} uses individual linkage behind the unphased mask", f"function reads individuals ({sorted(ind_vars)}) but takes no unphased mask", repo.loc(f))
            continue
        m = mask_names[0]
        for s, g in stmts(f):
            if isinstance(s, (ast.If, ast.For, ast.While, ast.With, ast.Try)):
                # the test expression itself
                exprs = [s.test] if isinstance(s, (ast.If, ast.While)) else []
            else:
                exprs = [s]
            for ex in exprs:
                used = {x.id for x in ast.walk(ex) if isinstance(x, ast.Name) and x.id in ind_vars}
                defines = isinstance(ex, ast.Assign) and any(isinstance(t, ast.Name) and t.id in ind_vars for t in ex.targets)
                if not used or defines:
                    continue
                txts = [U(e) for e, pol in bool_guards(g) if pol] + ([U(ex)] if isinstance(s, (ast.If, ast.While)) else [])
                guarded = any(f"{m}[" in t for t in txts)
                cons = f"{name} `{U(ex)[:50]}` uses individual linkage behind the unphased mask"
                if isinstance(s, ast.If) and guarded:
                    res.ok("R08.3", cons, "this is the mask test itself", repo.loc(f, s))
                else:
                    res.require(guarded, "R08.3", cons, f"individual-derived value {sorted(used)} is used without a dominating test of {m}[...]: with phased singletons (the default) individual information would still influence the result", repo.loc(f, s))


VARIANTS = [dict(v, rule="R08.4") for v in flagsrule.VARIANTS_C03] + [
    dict(name="reads-population", mod="variational", expect="fire", rule="R08.1", old="        self.edge_parents = ts.edges_parent\n", new="        self.edge_parents = ts.edges_parent\n        self.node_pops = ts.nodes_population\n"),
    dict(name="reads-derived-state", mod="discrete", expect="fire", rule="R08.1", old="        for m in ts.mutations():\n            if m.edge != tskit.NULL:", new="        for m in ts.mutations():\n            if m.edge != tskit.NULL and m.derived_state != '':"),
    dict(name="reads-metadata", mod="prior", expect="fire", rule="R08.1", old="        self.sample_node_set = set(self.ts.samples())", new="        self.sample_node_set = set(self.ts.samples())\n        self.md = self.ts.metadata"),
    dict(name="uses-num-sites", mod="variational", expect="fire", rule="R08.2", old="        self.edge_logconst = np.zeros(ts.num_edges)", new="        self.edge_logconst = np.zeros(ts.num_edges)\n        self.site_density = ts.num_sites / ts.sequence_length"),
    dict(name="all-site-positions", mod="rescaling", expect="fire", rule="R08.2", old="        ts.sites_position[ts.mutations_site],\n        ts.edges_parent,\n        ts.edges_child,\n        ts.edges_left,\n        ts.edges_right,\n        ts.indexes_edge_insertion_order,\n        ts.indexes_edge_removal_order,\n        ts.sequence_length,\n        size_biased,",
         new="        ts.sites_position,\n        ts.edges_parent,\n        ts.edges_child,\n        ts.edges_left,\n        ts.edges_right,\n        ts.indexes_edge_insertion_order,\n        ts.indexes_edge_removal_order,\n        ts.sequence_length,\n        size_biased,"),
    dict(name="individuals-unmasked", mod="phasing", expect="fire", rule="R08.3", old="            if i != tskit.NULL and individuals_unphased[i]:\n                mutations_block[m] = individuals_block[i]", new="            if i != tskit.NULL:\n                mutations_block[m] = individuals_block[i]"),
    dict(name="mask-ignores-flag", mod="variational", expect="fire", rule="R08.3", old="        individual_phased = np.full(ts.num_individuals, singletons_phased)", new="        individual_phased = np.full(ts.num_individuals, False)"),
    dict(name="inference-dumps-tables", mod="discrete", expect="fire", rule="R08.1", old="        self.ts = lik.ts\n", new="        self.ts = lik.ts\n        self.tab = lik.ts.dump_tables()\n"),
    dict(name="twin-structural-read", mod="variational", expect="silent", old="        self.edge_logconst = np.zeros(ts.num_edges)", new="        self.edge_logconst = np.zeros(ts.num_edges)\n        self.n_trees = ts.num_trees"),
]
