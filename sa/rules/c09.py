"""C09 -- determinism and thread-count independence (structural clauses)."""

import ast
import os

from ..base import AnalysisError, Defs, U, bool_guards, own_nodes, stmts
from ..callgraph import CallGraph
from ..e2 import E2
from .common import engine

API = ("date", "variational_gamma", "inside_outside", "maximization")
NONDET_CALLS = ("random.", "np.random.", "numpy.random.", "os.urandom", "uuid.", "os.listdir", "os.scandir", "glob.", "secrets.")
NONDET_NAMES = {"hash", "id"}
BAD_JIT_OPTIONS = {"parallel", "fastmath", "nogil"}
INT_ATTRS = {"id", "child", "parent", "node", "site", "root", "index", "edge"}
INT_CALLS = ("range", "np.arange", "np.unique", "np.flatnonzero", "np.where", "len", "int", "np.argsort", "np.argmax")
TREE_INT_METHODS = {"children", "parent", "nodes", "samples", "leaves", "roots", "num_children", "num_samples", "num_tracked_samples"}


def jit_option_findings(tree):
    """(lineno, text) of forbidden numba options / prange in a module AST"""
    out = []
    for n in ast.walk(tree):
        if isinstance(n, ast.Call) and any(k in U(n.func) for k in ("jit", "jitclass")):
            for k in n.keywords:
                if k.arg in BAD_JIT_OPTIONS and not (isinstance(k.value, ast.Constant) and k.value.value is False):
                    out.append((n.lineno, f"{U(n.func)}({k.arg}={U(k.value)})"))
        if isinstance(n, ast.Name) and n.id == "prange":
            out.append((n.lineno, "prange"))
        if isinstance(n, ast.Attribute) and n.attr == "prange":
            out.append((n.lineno, U(n)))
        if isinstance(n, ast.Dict):
            for k, v in zip(n.keys, n.values):
                if isinstance(k, ast.Constant) and k.value in BAD_JIT_OPTIONS and not (isinstance(v, ast.Constant) and v.value is False):
                    out.append((n.lineno, f"{{'{k.value}': {U(v)}}}"))
    return out


GLOBAL_SETS = {}


def build_global_sets(repo):
    """self attributes that hold python sets: attr -> (defining function, element sources)"""
    out = {}
    for mname, q, f in repo.all_funcs():
        if not f._cls:
            continue
        for n in own_nodes(f):
            if isinstance(n, ast.Assign):
                for t in n.targets:
                    if isinstance(t, ast.Attribute) and U(t.value) == "self":
                        v = n.value
                        if isinstance(v, ast.Call) and U(v.func) in ("set", "frozenset") and v.args:
                            out[t.attr] = (f, [("iter", v.args[0])])
                        elif isinstance(v, ast.SetComp):
                            out[t.attr] = (f, [("comp", v)])
    GLOBAL_SETS[id(repo)] = out
    return out


class SetTyping:
    """which local names / self attributes hold python sets, and are their elements ints?"""

    def __init__(self, repo, f):
        self.repo, self.f, self.d = repo, f, Defs(f)
        self.sets = {}  # name text -> list of element-source exprs
        for n in own_nodes(f):
            if isinstance(n, ast.Assign):
                for t in n.targets:
                    if isinstance(t, (ast.Name, ast.Attribute)):
                        src = self.set_sources(n.value)
                        if src is not None:
                            self.sets.setdefault(U(t), []).extend(src)
        for n in own_nodes(f):
            if isinstance(n, ast.Call) and isinstance(n.func, ast.Attribute) and n.func.attr in ("add", "update") and n.args:
                nm = U(n.func.value)
                if nm in self.sets:
                    self.sets[nm].append(("elt", n.args[0]) if n.func.attr == "add" else ("iter", n.args[0]))

    def set_sources(self, e):
        if isinstance(e, ast.Call) and U(e.func) in ("set", "frozenset"):
            return [("iter", e.args[0])] if e.args else []
        # attribute holding a set built in another method / a call returning a set
        if isinstance(e, ast.Attribute) and e.attr in GLOBAL_SETS.get(id(self.repo), {}):
            return [("foreign", (e.attr,))]
        if isinstance(e, ast.Call):
            for t in self.repo.resolve_call(self.f, e):
                if isinstance(t, ast.FunctionDef):
                    rets = [r.value for r in own_nodes(t) if isinstance(r, ast.Return) and r.value is not None]
                    if rets and all(isinstance(r, (ast.SetComp, ast.Set)) or (isinstance(r, ast.Call) and U(r.func) == "set") for r in rets):
                        return [("foreign-ret", (t, rets))]
        if isinstance(e, ast.Set):
            return [("elt", x) for x in e.elts]
        if isinstance(e, ast.SetComp):
            return [("comp", e)]
        if isinstance(e, ast.BinOp) and isinstance(e.op, (ast.BitOr, ast.BitAnd, ast.Sub)):
            a, b = self.set_sources(e.left), self.set_sources(e.right)
            if a is None and U(e.left) in self.sets:
                a = [("set", e.left)]
            if b is None and U(e.right) in self.sets:
                b = [("set", e.right)]
            if a is not None and b is not None:
                return a + b
        if isinstance(e, ast.IfExp):
            a, b = self.set_sources(e.body), self.set_sources(e.orelse)
            if a is not None or b is not None:
                return (a or [("elt", e.body)]) + (b or [("elt", e.orelse)])
        return None

    def is_set(self, e):
        return U(e) in self.sets or self.set_sources(e) is not None

    def is_int_set_expr(self, e):
        if U(e) in self.sets:
            return self.set_is_int(U(e))
        src = self.set_sources(e)
        if src is None:
            return False
        self.sets["<expr>"] = src
        try:
            return self.set_is_int("<expr>")
        finally:
            del self.sets["<expr>"]

    def int_like(self, e, seen=()):
        if isinstance(e, ast.Constant):
            return isinstance(e.value, int)
        if isinstance(e, ast.Attribute):
            if U(e) == "tskit.NULL" or e.attr in INT_ATTRS:
                return True
            return False
        if isinstance(e, ast.Subscript):
            return self.int_iter(e.value, seen) or self.int_like(e.value, seen)
        if isinstance(e, ast.Call):
            fn = U(e.func)
            if fn in ("int", "len") or fn.endswith((".parent", ".num_children", ".num_samples", ".num_tracked_samples", ".root")):
                return True
            return False
        if isinstance(e, ast.BinOp):
            return self.int_like(e.left, seen) and self.int_like(e.right, seen)
        if isinstance(e, ast.Name):
            if e.id in seen:
                return True
            vals = self.d.values(e.id)
            if not vals:
                return False
            for v in vals:
                if isinstance(v, ast.AST):
                    if not self.int_like(v, seen + (e.id,)):
                        return False
                elif v[0] == "iter":
                    if not self.int_iter(v[1], seen + (e.id,)):
                        return False
                elif v[0] == "unpack" and isinstance(v[1], tuple) and v[1][0] == "iter":
                    return False
                elif v[0] == "aug":
                    continue
                elif v[0] == "param":
                    # parameters of numba kernels are typed; others unknown
                    return False
                else:
                    return False
            return True
        return False

    def int_iter(self, e, seen=()):
        """iterable whose elements are ints"""
        if isinstance(e, ast.Call):
            fn = U(e.func)
            if fn in INT_CALLS or fn.endswith(".samples") or any(fn.endswith("." + m) for m in TREE_INT_METHODS):
                return True
            if fn in ("set", "list", "sorted", "tuple", "reversed", "np.array") and e.args:
                return self.int_iter(e.args[0], seen)
            return False
        if U(e) in self.sets:
            return self.set_is_int(U(e), seen)
        if isinstance(e, ast.BinOp) and isinstance(e.op, (ast.BitOr, ast.BitAnd, ast.Sub)):
            return self.int_iter(e.left, seen) and self.int_iter(e.right, seen)
        if isinstance(e, ast.Name):
            vals = self.d.values(e.id)
            return bool(vals) and all(isinstance(v, ast.AST) and self.int_iter(v, seen + (e.id,)) for v in vals if not (isinstance(v, tuple) and v[0] == "aug"))
        if isinstance(e, ast.Subscript):
            return self.int_iter(e.value, seen)
        return False

    def set_is_int(self, name, seen=()):
        if name in seen:
            return True
        for kind, x in self.sets.get(name, []):
            if kind == "elt" and not self.int_like(x, seen + (name,)):
                return False
            if kind == "iter" and not self.int_iter(x, seen + (name,)):
                return False
            if kind == "set" and not self.set_is_int(U(x), seen + (name,)):
                return False
            if kind == "foreign":
                g, srcs = GLOBAL_SETS[id(self.repo)][x[0]]
                st = SetTyping(self.repo, g) if g is not self.f else self
                if not all((k == "iter" and st.int_iter(v)) or (k == "elt" and st.int_like(v)) or (k == "comp" and st.int_like_comp(v)) for k, v in srcs):
                    return False
            if kind == "foreign-ret":
                g, rets = x
                st = SetTyping(self.repo, g)
                for r in rets:
                    if isinstance(r, ast.SetComp):
                        # {n for n in range(...) if ...}
                        gen = r.generators[0]
                        if not (st.int_iter(gen.iter) and (U(r.elt) == U(gen.target) or st.int_like(r.elt))):
                            return False
                    elif isinstance(r, ast.Call):
                        if not (r.args and st.int_iter(r.args[0])):
                            return False
                    else:
                        return False
            if kind == "comp":
                # {expr for v in it ...}: bind comprehension variables as ints when their iterables are
                if not self.int_like_comp(x):
                    return False
        return name in self.sets

    def int_like_comp(self, comp):
        elt = comp.elt
        if isinstance(elt, ast.Attribute) and elt.attr in INT_ATTRS:
            return True
        return self.int_like(elt)


def run(repo, res):
    res.rule("R09.1", "no nondeterminism source (random, hash, id, urandom, uuid, directory listing) in functions reachable from the dating API; time.time() values flow only to logging and provenance")
    res.rule("R09.2", "no numba option parallel/fastmath/nogil and no prange anywhere in the package (a positive fixture must be flagged on every run)")
    res.rule("R09.3", "unordered gather: results of imap_unordered are stored under the key returned by the worker, and the worker returns its input key")
    res.rule("R09.4", "iteration over a python set whose order can differ between processes (non-integer elements) is a violation; integer sets and numba typed containers are discharged; dicts are insertion-ordered")
    res.rule("R09.5", "np.empty arrays on the dating path are completely overwritten before any read (all struct fields, mask and its complement)")
    res.rule("R09.6", "the caller's prior object is mutated only by force_probability_space (an invertible conversion); its rows are copied before being combined")
    cg = engine(repo, CallGraph)
    e2 = engine(repo, E2)
    roots = [repo.fn("core", n) for n in API]
    reach = cg.reachable(roots)
    # fit-object methods are reachable by the user after dating
    for mod, cls in (("variational", "ExpectationPropagation"), ("discrete", "BeliefPropagation")):
        for q, f in repo.mods[mod].funcs.items():
            if q.startswith(cls + ".") and q.count(".") == 1:
                reach |= cg.reachable([f])
    res.count("functions_in_scope", len(reach))

    # R09.1 ---------------------------------------------------------------------------
    for f in sorted(reach, key=lambda f: (f._mod, f.lineno)):
        name = f"{f._mod}.{f._qual}"
        tnames = set()
        for n in own_nodes(f):
            if isinstance(n, ast.Call):
                fn = U(n.func)
                if fn.startswith(NONDET_CALLS) or (isinstance(n.func, ast.Name) and n.func.id in NONDET_NAMES):
                    res.bad("R09.1", f"{name} calls {fn}", f"`{U(n)[:60]}` is a source of run-to-run nondeterminism on the dating path ({cg.path(roots, f)})", repo.loc(f, n))
            if isinstance(n, ast.Assign) and isinstance(n.value, ast.Call) and U(n.value.func) == "time.time":
                for t in n.targets:
                    tnames.add(U(t))
        if not tnames:
            continue
        par = repo.mods[f._mod].parent
        for n in own_nodes(f):
            if isinstance(n, (ast.Name, ast.Attribute)) and U(n) in tnames and isinstance(n.ctx, ast.Load):
                # walk up to the statement
                p, ok = n, False
                while p is not None and not isinstance(p, ast.stmt):
                    if isinstance(p, ast.Call) and (U(p.func).startswith(("logger.", "logging.")) or U(p.func).endswith(("record_provenance", "get_provenance_dict", "get_resources"))):
                        ok = True
                    p = par.get(p)
                if isinstance(p, ast.AugAssign) and U(p.target) in tnames:
                    ok = True
                res.require(ok, "R09.1", f"{name} wall-clock value `{U(n)}` reaches only logging/provenance", f"`{U(p)[:70]}` uses a time.time() value outside logging and provenance", repo.loc(f, n))
    # class attribute self.start_time
    for mname, q, f in repo.all_funcs():
        if f in reach:
            for n in own_nodes(f):
                if isinstance(n, ast.Attribute) and n.attr == "start_time" and isinstance(n.ctx, ast.Load) and U(n.value) == "self":
                    p = repo.mods[f._mod].parent.get(n)
                    ok = isinstance(p, ast.Call) and U(p.func).endswith("record_provenance") or isinstance(p, ast.keyword)
                    res.require(ok, "R09.1", f"{mname}.{q} self.start_time reaches only provenance", f"`{U(p)[:60]}`", repo.loc(f, n))

    # R09.2 ---------------------------------------------------------------------------
    n_jit = 0
    for m in repo.mods.values():
        for line, txt in jit_option_findings(m.tree):
            res.bad("R09.2", f"{m.name} {txt}", "numba option that makes results depend on thread scheduling / re-association", f"tsdate/{m.name}.py:{line}")
    for f in e2.jitted:
        n_jit += 1
    res.require(n_jit >= 60, "R09.2", "package numba decorators carry no parallel/fastmath/nogil option and no prange", f"only {n_jit} jitted functions found", "", f"{n_jit} jitted functions inspected")
    fx = os.path.join(os.path.dirname(os.path.dirname(os.path.abspath(__file__))), "fixtures", "parallel_fixture.py")
    with open(fx) as fh:
        found = jit_option_findings(ast.parse(fh.read()))
    if len(found) < 4:
        raise AnalysisError(f"R09.2: the positive fixture is not flagged ({found}); the matcher is broken")
    res.analysed["r09_2_fixture_hits"] = len(found)

    # R09.3 ---------------------------------------------------------------------------
    n_gather = 0
    for f in sorted(reach, key=lambda f: (f._mod, f.lineno)):
        for n in own_nodes(f):
            if isinstance(n, ast.For) and any(isinstance(c, ast.Call) and U(c.func).endswith(("imap_unordered", "as_completed")) for c in ast.walk(n.iter)):
                n_gather += 1
                name = f"{f._mod}.{f._qual}"
                tgt = n.target
                direct = isinstance(n.iter, ast.Call) and U(n.iter.func).endswith(("imap_unordered", "as_completed"))
                ok = direct and isinstance(tgt, ast.Tuple) and len(tgt.elts) == 2 and all(isinstance(x, ast.Name) for x in tgt.elts)
                stores = [s for s in ast.walk(n) if isinstance(s, ast.Assign) and isinstance(s.targets[0], ast.Subscript)]
                if ok:
                    key, val = U(tgt.elts[0]), U(tgt.elts[1])
                    ok = bool(stores) and all(U(s.targets[0].slice) == key and U(s.value) == val for s in stores)
                    ok = ok and not any(isinstance(c, ast.Call) and U(c.func) in ("zip", "enumerate") for c in ast.walk(n.iter)) and not any(isinstance(c, ast.Call) and U(c.func).endswith(".append") for c in ast.walk(n))
                res.require(ok, "R09.3", f"{name} unordered gather stores each result under the worker's key", f"loop `for {U(tgt)} in {U(n.iter.func)}(...)` does not store `cache[key] = value` with the key returned by the worker", repo.loc(f, n), f"for {U(tgt)}: cache[{U(tgt.elts[0]) if isinstance(tgt, ast.Tuple) else '?'}] = value")
                # the worker returns its input key first
                worker = n.iter.args[0] if direct and n.iter.args else None
                d = Defs(f)
                wo = d.origins(worker) if worker is not None else set()
                wnames = [x for x in wo if "_lik_wrapper" in x or "partial(" in x]
                for cls in ("Likelihoods", "LogLikelihoods"):
                    if repo.has_fn("discrete", f"{cls}._lik_wrapper"):
                        w = repo.fn("discrete", f"{cls}._lik_wrapper")
                        p0 = w.args.args[0].arg
                        rets = [r for r in own_nodes(w) if isinstance(r, ast.Return)]
                        okw = bool(rets) and all(isinstance(r.value, ast.Tuple) and U(r.value.elts[0]) == p0 for r in rets)
                        res.require(okw, "R09.3", f"discrete.{cls}._lik_wrapper returns its input key first", "the worker does not return the key it was given", repo.loc(w), f"return {p0}, ...")
    if n_gather < 1:
        raise AnalysisError("R09.3: no imap_unordered gather found (anchor vanished)")

    # R09.4 ---------------------------------------------------------------------------
    n_iter = 0
    build_global_sets(repo)
    for f in sorted(reach, key=lambda f: (f._mod, f.lineno)):
        name = f"{f._mod}.{f._qual}"
        st = SetTyping(repo, f)
        sites = []
        for n in own_nodes(f):
            if isinstance(n, (ast.For, ast.comprehension)) and st.is_set(n.iter):
                sites.append((n.iter, n))
            if isinstance(n, ast.Call) and U(n.func) in ("list", "tuple", "iter", "np.array", "next", "enumerate") and n.args and st.is_set(n.args[0]):
                sites.append((n.args[0], n))
            if isinstance(n, ast.Call) and isinstance(n.func, ast.Attribute) and n.func.attr == "pop" and not n.args and st.is_set(n.func.value):
                sites.append((n.func.value, n))
        for it, node in sites:
            n_iter += 1
            cons = f"{name} iterates the set `{U(it)[:40]}`"
            loc = repo.loc(f, node if hasattr(node, "lineno") else it)
            if f in e2.jitted:
                res.ok("R09.4", cons, "inside a numba-compiled function: typed containers, no hash randomisation", loc)
            elif st.int_iter(it) or st.is_int_set_expr(it):
                res.ok("R09.4", cons, "integer elements: iteration order does not depend on the hash seed", loc)
            else:
                # is the iteration order observable?  sorted(...) wrappers are fine
                par = repo.mods[f._mod].parent.get(node)
                if isinstance(par, ast.Call) and U(par.func) == "sorted":
                    res.ok("R09.4", cons, "order re-established by sorted()", loc)
                else:
                    res.unres("R09.4", cons, "element type not proven integer", loc)
    res.analysed["set_iteration_sites"] = n_iter
    if n_iter < 5:
        raise AnalysisError(f"R09.4: only {n_iter} set iteration sites recognised (expected at least 5)")

    # R09.5 ---------------------------------------------------------------------------
    n_empty = 0
    for f in sorted(reach, key=lambda f: (f._mod, f.lineno)):
        name = f"{f._mod}.{f._qual}"
        for s, g in stmts(f):
            if isinstance(s, ast.Assign) and isinstance(s.value, ast.Call) and U(s.value.func) in ("np.empty", "np.empty_like") and isinstance(s.targets[0], (ast.Name, ast.Attribute)):
                n_empty += 1
                var = U(s.targets[0])
                cons = f"{name} np.empty `{var}` is fully written before use"
                loc = repo.loc(f, s)
                writes = [x for x, _ in stmts(f) if isinstance(x, ast.Assign) and isinstance(x.targets[0], ast.Subscript) and U(x.targets[0].value) == var and x.lineno > s.lineno]
                # (a) structured array: all fields of the dtype are assigned
                dt = next((k.value for k in s.value.keywords if k.arg == "dtype"), None)
                d = Defs(f)
                fields = None
                if dt is not None:
                    dd = d.inline(dt)
                    lst = dd.args[0] if isinstance(dd, ast.Call) and U(dd.func) == "np.dtype" and dd.args else dd
                    if isinstance(lst, (ast.List, ast.Tuple)) and lst.elts and all(isinstance(x, ast.Tuple) for x in lst.elts):
                        fields = [x.elts[0].value for x in lst.elts if isinstance(x.elts[0], ast.Constant)]
                if fields:
                    written = {x.targets[0].slice.value for x in writes if isinstance(x.targets[0].slice, ast.Constant)}
                    res.require(set(fields) <= written, "R09.5", cons, f"fields {sorted(set(fields) - written)} of the structured array are never assigned", loc, f"fields {fields} all assigned")
                    continue
                # (b) mask and its complement
                idx = [U(x.targets[0].slice).replace(" ", "") for x in writes]
                comp = any(("np.logical_not(np.isin(" in b or "~np.isin(" in b) and a in b for a in idx for b in idx if a != b)
                full = any(i in (":", "...") for i in idx)
                if comp or full:
                    res.ok("R09.5", cons, "written through an index set and its complement" if comp else "full-slice store", loc)
                elif isinstance(s.value.args[0], ast.Constant) and s.value.args[0].value == 0:
                    res.ok("R09.5", cons, "zero-length array", loc)
                else:
                    res.unres("R09.5", cons, f"overwrite pattern not recognised (stores at {idx})", loc)
    res.analysed["np_empty_sites"] = n_empty
    if n_empty < 3:
        raise AnalysisError("R09.5: fewer np.empty sites than expected")

    # R09.9 ---------------------------------------------------------------------------
    res.rule("R09.9", "NodeTimeValues never updates its whole arrays in place (no `out=` ufunc target, no augmented assignment on grid_data / fixed_data): clone_with_new_data shares the arrays it is given, so an in-place conversion would change another object's -- e.g. the caller's prior -- data behind its recorded probability space")
    n_w = 0
    for q_, f_ in repo.mods["node_time_class"].funcs.items():
        for n_ in own_nodes(f_):
            tgt_ = None
            if isinstance(n_, ast.AugAssign) and U(n_.target).split("[")[0] in ("self.grid_data", "self.fixed_data") and not isinstance(n_.target, ast.Subscript):
                tgt_ = U(n_)
            if isinstance(n_, ast.Call):
                for k_ in n_.keywords:
                    if k_.arg == "out" and ("grid_data" in U(k_.value) or "fixed_data" in U(k_.value)):
                        tgt_ = U(n_)
            if isinstance(n_, ast.Assign) and U(n_.targets[0]) in ("self.grid_data", "self.fixed_data"):
                n_w += 1
            if tgt_:
                res.bad("R09.9", f"node_time_class.{q_} whole-array update `{tgt_[:60]}`", "updates the array in place: an object sharing it (clone_with_new_data passes arrays through) now holds converted data while still recording the old probability space; rebind a new array instead", repo.loc(f_, n_))
    res.floor("node_time_values_rebinding_stores", n_w, 3)
    res.ok("R09.9", "node_time_class whole-array updates rebind", f"{n_w} rebinding stores, no in-place update", "")
    # R09.8 ---------------------------------------------------------------------------
    from .common import borrow

    borrow(repo, res, "c36", "R36.4", "R09.8", "(= R36.4) the on-disk prior cache is written losslessly, so the call that fills the cache and every later call or process that loads it compute from identical tables")
    # R09.7 ---------------------------------------------------------------------------
    from .c12 import prior_space_follows_likelihood

    res.rule("R09.7", "a reused prior object gives the same result as a fresh one: BeliefPropagation.__init__ converts it to the likelihood's space unconditionally, whichever space an earlier run left it in")
    prior_space_follows_likelihood(repo, res, "R09.7")
    # R09.6 ---------------------------------------------------------------------------
    MUTATING = {"standardize", "to_probabilities", "force_probability_space", "__setitem__"}
    n_pr = 0
    for mod in ("discrete", "core"):
        for q, f in repo.mods[mod].funcs.items():
            if f not in reach:
                continue
            name = f"{mod}.{q}"
            par = repo.mods[mod].parent
            for n in own_nodes(f):
                if isinstance(n, ast.Attribute) and U(n) in ("self.priors", "priors") and isinstance(n.ctx, ast.Load) or (isinstance(n, ast.Name) and n.id == "priors" and isinstance(n.ctx, ast.Load) and "priors" in [a.arg for a in f.args.args + f.args.kwonlyargs] and f.name in ("__init__",) and f._cls == "BeliefPropagation"):
                    p = par.get(n)
                    n_pr += 1
                    if isinstance(p, ast.Attribute) and isinstance(par.get(p), ast.Call) and par.get(p).func is p:
                        meth = p.attr
                        if meth in MUTATING:
                            res.require(meth == "force_probability_space", "R09.6", f"{name} calls priors.{meth}()", "mutates the caller's prior object beyond the invertible space conversion", repo.loc(f, n), "invertible conversion")
                    elif isinstance(p, ast.Attribute) and isinstance(p.ctx, ast.Store):
                        res.bad("R09.6", f"{name} stores priors.{p.attr}", "writes the caller's prior object", repo.loc(f, n))
                    elif isinstance(p, ast.Subscript) and p.value is n:
                        pp = par.get(p)
                        if isinstance(p.ctx, ast.Store):
                            res.bad("R09.6", f"{name} writes a prior row", "writes the caller's prior object", repo.loc(f, n))
                        else:
                            copied = isinstance(pp, ast.Attribute) and pp.attr == "copy"
                            res.require(copied, "R09.6", f"{name} copies the prior row before combining it", f"`{U(pp)[:50]}` aliases a row of the caller's prior grid", repo.loc(f, n), "row.copy()")
    res.floor("prior_object_uses", n_pr, 4)


VARIANTS = [
    dict(name="conversion-in-place", mod="node_time_class", expect="fire", rule="R09.9", old="                self.grid_data = np.exp(self.grid_data)\n", new="                np.exp(self.grid_data, out=self.grid_data)\n"),
    dict(name="cache-rounded-on-write", mod="prior", expect="fire", rule="R09.8", old="                np.savetxt(f, prior_lookup_table)\n", new="                np.savetxt(f, prior_lookup_table, fmt=\"%.9g\")\n"),
    dict(name="prior-conversion-only-towards-log", mod="discrete", expect="fire", rule="R09.7", old="        self.priors.force_probability_space(lik.probability_space)\n", new="        if lik.probability_space == LOG_GRID:\n            self.priors.force_probability_space(lik.probability_space)\n"),
    dict(name="random-tiebreak", mod="discrete", expect="fire", rule="R09.1", old="            maximized_node_times[child] = np.argmax(", new="            _ = np.random.random()\n            maximized_node_times[child] = np.argmax("),
    dict(name="hash-order", mod="prior", expect="fire", rule="R09.1", old="                    mixture_hash = (total_tips, span_arr.tobytes())", new="                    mixture_hash = hash((total_tips, span_arr.tobytes()))"),
    dict(name="time-in-result", mod="variational", expect="fire", rule="R09.1", old="        nodes_timing -= time.time()\n", new="        nodes_timing -= time.time()\n        self.edge_logconst[0] += nodes_timing\n"),
    dict(name="parallel-kernel", mod="util", expect="fire", rule="R09.2", old="@numba_jit(_f1w(_f1r, _b1r, _i1r, _i1r, _f, _i))\ndef _constrain_ages(", new="@numba_jit(_f1w(_f1r, _b1r, _i1r, _i1r, _f, _i), parallel=True)\ndef _constrain_ages("),
    dict(name="fastmath-default", mod="accelerate", expect="fire", rule="R09.2", old='    "nopython": True,\n', new='    "nopython": True,\n    "fastmath": True,\n'),
    dict(name="gather-by-position", mod="discrete", expect="fire", rule="R09.3",
         old="                        for key, pmf in pool.imap_unordered(\n                            f, self.unfixed_likelihood_cache.keys()\n                        ):\n                            self.unfixed_likelihood_cache[key] = pmf",
         new="                        for key, (_, pmf) in zip(list(self.unfixed_likelihood_cache.keys()), pool.imap_unordered(\n                            f, self.unfixed_likelihood_cache.keys()\n                        )):\n                            self.unfixed_likelihood_cache[key] = pmf"),
    dict(name="worker-drops-key", mod="discrete", expect="fire", rule="R09.3", old="        return muts_span, Likelihoods._lik(", new="        return None, Likelihoods._lik("),
    dict(name="struct-field-unset", mod="variational", expect="fire", rule="R09.5", old="        data[\"mean\"] = node_mn\n        data[\"variance\"] = node_va\n", new="        data[\"mean\"] = node_mn\n"),
    dict(name="prior-standardized-in-place", mod="discrete", expect="fire", rule="R09.6", old="        self.priors.force_probability_space(lik.probability_space)\n", new="        self.priors.force_probability_space(lik.probability_space)\n        self.priors.standardize()\n"),
    dict(name="prior-row-aliased", mod="discrete", expect="fire", rule="R09.6", old="            val = self.priors[parent].copy()", new="            val = self.priors[parent]"),
    dict(name="twin-sorted-set", mod="prior", expect="silent", old="        for total_fixed in span_data.total_fixed_at_0_counts:", new="        for total_fixed in sorted(span_data.total_fixed_at_0_counts):"),
]
