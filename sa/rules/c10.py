"""C10 -- inside-outside exact on a single tree: one necessary structural clause
(the outside pass divides by the very message the inside pass multiplied in)."""

import ast
import copy
import re

from ..base import AnalysisError, U, own_nodes, stmts, walk_guarded


def inline_block(expr, defs, depth=6):
    class T(ast.NodeTransformer):
        def visit_Name(self, n):
            if isinstance(n.ctx, ast.Load) and n.id in defs and depth > 0:
                return inline_block(defs[n.id], {k: v for k, v in defs.items() if k != n.id}, depth - 1)
            return n

    return T().visit(copy.deepcopy(expr))


def block_defs(block):
    d = {}
    for s in block:
        if isinstance(s, ast.Assign) and len(s.targets) == 1 and isinstance(s.targets[0], ast.Name):
            d[s.targets[0].id] = s.value
    return d


def norm(e, aliases):
    t = U(e)
    for a, b in aliases:
        t = re.sub(a, b, t)
    return t.replace(" ", "")


def run(repo, res):
    from . import rowspace

    res.rule("R10.4", "fit.node_posteriors() rows belong to the right nodes: whole-grid values are scattered to node positions only through the grid's own nonfixed_nodes order")
    rowspace.run(repo, res, "R10.4")
    res.rule("R10.1", "clone consistency: the child-to-parent message recomputed in outside_pass (non-cached branch) is, after inlining locals and applying the aliases self.inside = inside, child = edge.child (group key), the same expression tree as the message multiplied in by inside_pass for a non-fixed child; cached and recomputed forms normalise by the denominator of the same node")
    res.rule("R10.2", "the outside pass combines, for each edge, outside[parent] with inside[parent] / message, and the posterior is inside * outside; the inside pass divides each node by the denominator it records")
    res.rule("R10.3", "the per-edge mutation counts entering the likelihood are exact for mutations above a root: a mutation's edge id is tested against tskit.NULL before it indexes the count array (numpy would credit -1 to the last edge)")
    from . import nullidx

    nullidx.run(repo, res, "R10.3", floor=1, scope=["discrete"])
    ip = repo.fn("discrete", "BeliefPropagation.inside_pass")
    op = repo.fn("discrete", "BeliefPropagation.outside_pass")
    # ---- inside: the non-fixed-child branch
    msg_in = None
    loop_defs = {}
    for s, g in stmts(ip):
        if isinstance(s, ast.For) and U(s.target) == "edge":
            loop_defs = block_defs(s.body)
            for x in s.body:
                if isinstance(x, ast.If) and "fixednodes" in U(x.test):
                    d = dict(loop_defs)
                    d.update(block_defs(x.orelse))
                    if "edge_lik" in block_defs(x.orelse):
                        msg_in = inline_block(block_defs(x.orelse)["edge_lik"], {k: v for k, v in d.items() if k != "edge_lik"})
    if msg_in is None:
        raise AnalysisError("R10.1: inside_pass message for a non-fixed child not found")
    # ---- outside: the recomputation in the AttributeError handler
    msg_out = None
    denom_out = None
    key_ok = False
    for s, g in stmts(op):
        if isinstance(s, ast.For) and isinstance(s.target, ast.Tuple) and U(s.target.elts[0]) == "child":
            # the group key is the edge's child
            it = s.iter
            src = U(it)
            key_ok = "edges_by_child_desc" in src
    grp = repo.fn("discrete", "BeliefPropagation.edges_by_child_desc")
    key_ok = key_ok and any(isinstance(c, ast.Call) and U(c.func) == "itertools.groupby" and U(c.args[1]).replace('"', "'") == "operator.attrgetter('child')" for c in own_nodes(grp))
    for s, g in stmts(op):
        if isinstance(s, ast.Try):
            for h in s.handlers:
                hd = block_defs(h.body)
                # the handler rebuilds   inside_div_gi = ratio(inside[parent], ratio(<message>, <denominator>))
                # either directly or through temporaries: inline the handler's locals first
                tgt = [k for k, v in hd.items() if isinstance(v, ast.Call) and U(v.func) == "self.lik.ratio" and len(v.args) == 2 and "parent" in U(v.args[0])]
                if len(tgt) == 1:
                    ld = {}
                    # spanfrac is defined in the edge loop before the try
                    for s2, g2 in stmts(op):
                        if isinstance(s2, ast.Assign) and U(s2.targets[0]) == "spanfrac":
                            ld["spanfrac"] = s2.value
                    ld.update(hd)
                    full = inline_block(hd[tgt[0]], {k: v for k, v in ld.items() if k != tgt[0]})
                    inner = full.args[1]
                    if isinstance(inner, ast.Call) and U(inner.func) == "self.lik.ratio" and len(inner.args) == 2:
                        msg_out, denom_out = inner.args
    if msg_out is None:
        raise AnalysisError("R10.1: recomputed message not found in outside_pass")
    al = [(r"\bself\.inside\b", "inside"), (r"\bself\.denominator\b", "denominator")]
    a = norm(msg_in, al)
    b = norm(msg_out, al + ([(r"(?<![\w.])child\b", "edge.child")] if key_ok else []))
    res.require(a == b, "R10.1", "discrete.BeliefPropagation.outside_pass recomputes the inside message identically", f"inside multiplies in `{a}` but outside divides by `{b}`: the posterior of the parent is no longer the product of the other messages", repo.loc(op), a[:110])
    res.require(key_ok, "R10.1", "discrete.BeliefPropagation.outside_pass `child` is the group key edge.child", "edges are not grouped by attrgetter('child')", repo.loc(op))
    dn = norm(denom_out, al + [(r"(?<![\w.])child\b", "edge.child")]) if denom_out is not None else None
    res.require(dn == "denominator[edge.child]", "R10.1", "discrete.BeliefPropagation.outside_pass normalises the recomputed message by the child's denominator", f"normalised by `{dn}`", repo.loc(op), str(dn))
    cached = [s for s, g in stmts(ip) if isinstance(s, ast.Assign) and U(s.targets[0]) == "self.g_i"]
    okc = len(cached) == 1 and U(cached[0].value).replace(" ", "") == "self.lik.ratio(g_i,denominator[self.ts.edges_child,None])"
    stored = [s for s, g in stmts(ip) if isinstance(s, ast.Assign) and U(s.targets[0]).replace(" ", "") == "g_i[edge.id]"]
    okc = okc and len(stored) == 1 and U(stored[0].value) == "edge_lik"
    res.require(okc, "R10.1", "discrete.BeliefPropagation.inside_pass caches each edge's message normalised by its child's denominator", "cached form differs from the recomputed one", repo.loc(ip))
    # ---- R10.2 combination shapes (resolved through def-use, not text)
    from ..base import Defs

    do, di = Defs(op), Defs(ip)

    def calls_named(f, suffix):
        return [c for c in own_nodes(f) if isinstance(c, ast.Call) and U(c.func).endswith(suffix)]

    # posterior = inside x outside
    pg = [s for s, g in stmts(op) if isinstance(s, ast.Assign) and U(s.targets[0]) == "self.posterior_grid"]
    okp = False
    if len(pg) == 1 and isinstance(pg[0].value, ast.Call):
        gd = next((k.value for k in pg[0].value.keywords if k.arg == "grid_data"), None)
        gd = do.single(gd.id) if isinstance(gd, ast.Name) else gd
        if isinstance(gd, ast.Call) and U(gd.func) == "self.lik.combine" and len(gd.args) == 2:
            okp = sorted(norm(x, al) for x in gd.args) == sorted(["inside.grid_data", "outside.grid_data"])
    res.require(okp, "R10.2", "discrete.BeliefPropagation.outside_pass posterior grid = combine(inside, outside)", "the posterior is not the product of the inside and outside values", repo.loc(op))
    # per-edge message: combine(outside[parent], ratio(inside[parent], message))
    comb = [c for c in calls_named(op, "lik.combine") if any(norm(a, al) == "outside[edge.parent]" for a in c.args)]
    okm = False
    if len(comb) == 1:
        other = [a for a in comb[0].args if norm(a, al) != "outside[edge.parent]"][0]
        alts = do.values(other.id) if isinstance(other, ast.Name) else [other]
        okm = bool(alts) and all(isinstance(v, ast.Call) and U(v.func) == "self.lik.ratio" and norm(v.args[0], al) == "inside[edge.parent]" and any(k.arg == "div_0_null" and U(k.value) == "True" for k in v.keywords) for v in alts)
    res.require(okm, "R10.2", "discrete.BeliefPropagation.outside_pass message to a child = outside[parent] x inside[parent] / its own inside message", "the parent's inside value is not divided by the child's message before being passed down", repo.loc(op))
    # inside normalisation bookkeeping
    st_in = [s for s, g in stmts(ip) if isinstance(s, ast.Assign) and isinstance(s.targets[0], ast.Subscript) and U(s.targets[0].value) == "inside"]
    oki = len(st_in) == 1 and isinstance(st_in[0].value, ast.Call) and U(st_in[0].value.func) == "self.lik.ratio" and U(st_in[0].value.args[1]) == f"denominator[{U(st_in[0].targets[0].slice)}]"
    acc = [c for c in calls_named(ip, "lik.combine") if any(U(a).startswith("denominator[") for a in c.args) and any(U(a) == "marginal_lik" for a in c.args)]
    res.require(oki and len(acc) == 1, "R10.2", "discrete.BeliefPropagation.inside_pass divides each node by its recorded denominator and accumulates it in the marginal likelihood", "normalisation bookkeeping differs", repo.loc(ip))
    st_out = [s for s, g in stmts(op) if isinstance(s, ast.Assign) and isinstance(s.targets[0], ast.Subscript) and U(s.targets[0].value) == "outside" and U(s.targets[0].slice) == "child"]
    oko = bool(st_out) and isinstance(st_out[0].value, ast.Call) and U(st_out[0].value.func) == "self.lik.ratio" and norm(st_out[0].value.args[1], al) == "denominator[child]"
    res.require(oko, "R10.2", "discrete.BeliefPropagation.outside_pass divides the child's outside value by the child's denominator", "outside normalisation differs", repo.loc(op))


VARIANTS = [dict(v, rule="R10.4") for v in __import__("sa.rules.rowspace", fromlist=["VARIANTS"]).VARIANTS] + [dict(name="mut-edge-unguarded-vectorised", mod="discrete", expect="fire", rule="R10.3", old="        for m in ts.mutations():\n            if m.edge != tskit.NULL:\n                mut_edges[m.edge] += 1\n", new="        np.add.at(mut_edges, ts.mutations_edge, 1)\n")] + [
    dict(name="outside-forgets-spanfrac", mod="discrete", expect="fire", rule="R10.1", old="                    daughter_val = self.lik.scale_geometric(\n                        spanfrac, self.lik.make_lower_tri(self.inside[edge.child])\n                    )\n                    edge_lik = self.lik.get_inside(daughter_val, edge)\n                    cur_g_i", new="                    daughter_val = self.lik.make_lower_tri(self.inside[edge.child])\n                    edge_lik = self.lik.get_inside(daughter_val, edge)\n                    cur_g_i"),
    dict(name="outside-uses-parent-inside", mod="discrete", expect="fire", rule="R10.1", old="                        spanfrac, self.lik.make_lower_tri(self.inside[edge.child])\n                    )\n                    edge_lik = self.lik.get_inside(daughter_val, edge)\n                    cur_g_i", new="                        spanfrac, self.lik.make_lower_tri(self.inside[edge.parent])\n                    )\n                    edge_lik = self.lik.get_inside(daughter_val, edge)\n                    cur_g_i"),
    dict(name="spanfrac-differs", mod="discrete", expect="fire", rule="R10.1", old="                spanfrac = edge.span / self.spans[child]", new="                spanfrac = edge.span / self.spans[edge.parent]"),
    dict(name="wrong-denominator", mod="discrete", expect="fire", rule="R10.1", old="                    cur_g_i = self.lik.ratio(edge_lik, self.denominator[child])", new="                    cur_g_i = self.lik.ratio(edge_lik, self.denominator[edge.parent])"),
    dict(name="cache-normalised-by-parent", mod="discrete", expect="fire", rule="R10.1", old="            self.g_i = self.lik.ratio(g_i, denominator[self.ts.edges_child, None])", new="            self.g_i = self.lik.ratio(g_i, denominator[self.ts.edges_parent, None])"),
    dict(name="inside-message-changed", mod="discrete", expect="fire", rule="R10.1", old="                    daughter_val = self.lik.scale_geometric(\n                        spanfrac, self.lik.make_lower_tri(inside[edge.child])\n                    )\n                    edge_lik = self.lik.get_inside(daughter_val, edge)\n                val = ", new="                    daughter_val = self.lik.scale_geometric(\n                        spanfrac, self.lik.make_lower_tri(inside[edge.child])\n                    )\n                    edge_lik = self.lik.get_outside(daughter_val, edge)\n                val = "),
    dict(name="posterior-not-product", mod="discrete", expect="fire", rule="R10.2", old="            grid_data=self.lik.combine(self.inside.grid_data, outside.grid_data),", new="            grid_data=outside.grid_data,"),
    dict(name="twin-temp-in-outside", mod="discrete", expect="silent", old="                    daughter_val = self.lik.scale_geometric(\n                        spanfrac, self.lik.make_lower_tri(self.inside[edge.child])\n                    )\n                    edge_lik = self.lik.get_inside(daughter_val, edge)\n                    cur_g_i", new="                    tri = self.lik.make_lower_tri(self.inside[edge.child])\n                    daughter_val = self.lik.scale_geometric(spanfrac, tri)\n                    edge_lik = self.lik.get_inside(daughter_val, edge)\n                    cur_g_i"),
]
