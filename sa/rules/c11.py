"""C11 -- invariance to node numbering and input time order: order-only and opacity clauses."""

import ast

from ..base import AnalysisError, Defs, U, bool_guards, own_nodes, stmts
from ..callgraph import CallGraph
from ..e4 import Typing
from .common import engine

SORTERS = ("np.argsort", "np.lexsort", "argsort", "lexsort")
SAMPLE_MARKERS = ("samples()", "is_fixed", "fixed_nodes", "fixednodes", "i.nodes", "contmpr_samples")
ID_ATTRS = {"parent", "child", "root", "node", "id"}
COUNT_MARKERS = ("num_nodes", "num_edges", "num_samples", "num_mutations", "num_trees")


def discrete_scope(repo):
    cg = engine(repo, CallGraph)
    roots = [repo.fn("core", "inside_outside"), repo.fn("core", "maximization")]
    stop = [repo.fn("core", "EstimationMethod.get_modified_ts"), repo.fn("provenance", "record_provenance"), repo.fn("core", "VariationalGammaMethod.run"), repo.fn("core", "VariationalGammaMethod.__init__")]
    reach = cg.reachable(roots, stop=stop)
    return {f for f in reach if f._mod not in ("variational", "phasing", "rescaling", "approx", "hypergeo", "evaluation")}


def classify_time_read(repo, f, node, d):
    par = repo.mods[f._mod].parent
    chain = []
    p = node
    while p is not None and not isinstance(p, ast.stmt):
        chain.append(p)
        p = par.get(p)
    stmt = p
    # A. dtype only
    if len(chain) > 1 and isinstance(chain[1], ast.Attribute) and chain[1].attr == "dtype":
        return "type-only", "only the dtype is read"
    # B. sort key
    for c in chain:
        if isinstance(c, ast.Call) and U(c.func) in SORTERS:
            return "sort-key", f"argument of {U(c.func)}"
    # C. field of a structured array consumed only by argsort
    if isinstance(stmt, ast.Assign) and isinstance(stmt.targets[0], ast.Subscript) and isinstance(stmt.targets[0].slice, ast.Constant) and isinstance(stmt.targets[0].slice.value, str):
        w = U(stmt.targets[0].value)
        loads = [n for n in own_nodes(f) if isinstance(n, ast.Name) and n.id == w and isinstance(n.ctx, ast.Load)]
        ok = True
        for n in loads:
            pp = par.get(n)
            if isinstance(pp, ast.Subscript) and isinstance(pp.ctx, ast.Store):
                continue
            if isinstance(pp, ast.Call) and U(pp.func) in SORTERS and pp.args and pp.args[0] is n:
                continue
            ok = False
        if ok and loads:
            return "sort-key", f"field of `{w}`, which is only passed to argsort"
    # D/E. sample times
    idx_txt = ""
    if len(chain) > 1 and isinstance(chain[1], ast.Subscript) and chain[1].value is node:
        idx = chain[1].slice
        idx_txt = " ".join(sorted(d.origins(idx))) + " " + U(idx)
    if isinstance(node, ast.Attribute) and node.attr == "time" and isinstance(node.value, ast.Call):
        a = node.value.args[0] if node.value.args else None
        idx_txt = (" ".join(sorted(d.origins(a))) + " " + U(a)) if a is not None else ""
        guards = [g for s, g in stmts(f, asserts=True) if s is stmt]
        gtxt = " ".join(U(e) for e, pol in bool_guards(guards[0]) if pol) if guards else ""
        if "in self.fixednodes" in gtxt and U(a) in gtxt:
            idx_txt += " fixednodes"
        for n in own_nodes(f):
            if isinstance(n, ast.For) and isinstance(a, ast.Name) and U(n.target) == a.id and "samples()" in U(n.iter):
                idx_txt += " samples()"
    if any(m in idx_txt for m in SAMPLE_MARKERS):
        return "sample-times", f"indexed by sample nodes ({idx_txt.strip()[:60]})"
    return None, f"`{U(stmt)[:90]}`"


def run(repo, res):
    from .common import borrow as _borrow

    _borrow(repo, res, "c13", "R13.2", "R11.5", "(= R13.2) maximization bounds each child by the running minimum over its parents' estimated grid indices; it does not rely on the order in which parents are visited (that order follows the input times)")
    from . import sampleorder

    res.rule("R11.4", "sample nodes are identified by ts.samples() / the NODE_IS_SAMPLE bit, never by position in the node table: num_samples is used as a count only (no slice bound, no id range, no ordering comparison with a node id)")
    sampleorder.run(repo, res, "R11.4", floor=3, scope=["core", "discrete", "prior", "node_time_class"])
    from . import rowspace

    res.rule("R11.3", "results do not depend on node numbering: grid rows (stored in nonfixed_nodes order, i.e. sorted by input time) are assigned to node ids only through that same array, never through a mask or arange, which would enumerate nodes by ascending id")
    rowspace.run(repo, res, "R11.3")
    res.rule("R11.1", "taint: on the discrete-time path every read of the input node-time column is the time of sample nodes (indexed by sample ids / fixed mask), a sort key (argument of argsort/lexsort or a field of a structured array passed only to argsort) or a dtype query -- never an arithmetic operand, likelihood argument or initial value")
    res.rule("R11.2", "node-id opacity: node ids are compared only for equality / membership and used as indices; an ordering comparison or arithmetic between a node id and a count-derived expression is a violation (constructs under ignore_oldest_root are C38's)")
    ty = engine(repo, Typing)
    scope = discrete_scope(repo)
    res.count("functions_in_scope", len(scope))
    n = 0
    for f in sorted(scope, key=lambda f: (f._mod, f.lineno)):
        d = Defs(f)
        for bt, attr, kind, node in ty.accesses(f):
            if (bt == "TS" and attr == "nodes_time") or (bt == "Row:node" and attr == "time") or (bt == "Tree" and attr == "time"):
                n += 1
                cls, why = classify_time_read(repo, f, node, d)
                cons = f"{f._mod}.{f._qual} read of input node times `{U(node)}`"
                res.require(cls is not None, "R11.1", cons, f"{why}: the (uncalibrated) input time of a non-sample node enters the computation as a value, so changing input times changes the dates", repo.loc(f, node), f"{cls}: {why}")
    res.floor("input_time_reads", n, 8)
    # R11.2
    n_cmp = 0
    for f in sorted(scope, key=lambda f: (f._mod, f.lineno)):
        # names that hold node ids: group keys of edge groupings, copies of row id attributes
        id_names = set()
        dd = Defs(f)
        for n in own_nodes(f):
            if isinstance(n, ast.For) and isinstance(n.target, ast.Tuple) and n.target.elts and isinstance(n.target.elts[0], ast.Name):
                alts = ty.ty_all(f, n.iter)
                if any(a and a.startswith("Iter:Tuple:?,Iter:Row:edge") for a in alts):
                    id_names.add(n.target.elts[0].id)
        for nm, vals in dd.defs.items():
            if any(isinstance(v, ast.Attribute) and v.attr in ("parent", "child", "root") and ty.ty(f, v.value) in ("Row:edge", "Tree") for v in vals if isinstance(v, ast.AST)):
                id_names.add(nm)
        for s, g in stmts(f):
            under_flag = any("ignore_oldest_root" in U(e) for e, pol in bool_guards(g)) or (isinstance(s, ast.If) and "ignore_oldest_root" in U(s.test))
            exprs = [s.test] if isinstance(s, (ast.If, ast.While)) else ([] if isinstance(s, (ast.For, ast.With, ast.Try, ast.FunctionDef)) else [s])
            for ex in exprs:
                for c in ast.walk(ex):
                    if isinstance(c, ast.Compare) and len(c.ops) == 1:
                        sides = [c.left, c.comparators[0]]
                        ids = [x for x in sides if (isinstance(x, ast.Attribute) and x.attr in ID_ATTRS and ty.ty(f, x.value) in ("Row:edge", "Tree", "Row:mutation")) or (isinstance(x, ast.Name) and x.id in id_names)]
                        if not ids:
                            continue
                        other = sides[1] if sides[0] is ids[0] else sides[0]
                        n_cmp += 1
                        cons = f"{f._mod}.{f._qual} comparison `{U(c)}`"
                        if under_flag:
                            res.ok("R11.2", cons, "under ignore_oldest_root: judged by C38", repo.loc(f, c))
                        elif not isinstance(c.ops[0], (ast.Eq, ast.NotEq, ast.In, ast.NotIn)):
                            res.bad("R11.2", cons, "ordering comparison on a node id: ids are arbitrary labels", repo.loc(f, c))
                        elif any(m in U(other) for m in COUNT_MARKERS):
                            res.bad("R11.2", cons, "a node id is compared with a count-derived value: the result depends on how nodes are numbered", repo.loc(f, c))
                        else:
                            res.ok("R11.2", cons, "equality / membership only", repo.loc(f, c))
                    if isinstance(c, ast.BinOp) and isinstance(c.op, (ast.Add, ast.Sub, ast.Mult, ast.Div)):
                        for x in (c.left, c.right):
                            if isinstance(x, ast.Attribute) and x.attr in ("parent", "child", "root") and ty.ty(f, x.value) in ("Row:edge", "Tree"):
                                res.bad("R11.2", f"{f._mod}.{f._qual} arithmetic on a node id `{U(c)[:50]}`", "node ids are opaque labels", repo.loc(f, c))
    res.floor("node_id_comparisons", n_cmp, 5)


VARIANTS = [dict(v, rule="R11.4") for v in __import__("sa.rules.sampleorder", fromlist=["VARIANTS"]).VARIANTS if v["mod"] in ("core", "prior")] + [dict(v, rule="R11.3") for v in __import__("sa.rules.rowspace", fromlist=["VARIANTS"]).VARIANTS] + [
    dict(name="input-time-as-initial-value", mod="discrete", expect="fire", rule="R11.1", old="        maximized_node_times = np.zeros(self.ts.num_nodes, dtype=\"int\")", new="        maximized_node_times = np.searchsorted(self.lik.timepoints, self.ts.nodes_time).astype(\"int\")"),
    dict(name="input-time-in-likelihood", mod="discrete", expect="fire", rule="R11.1", old="                spanfrac = edge.span / self.spans[edge.child]\n                # Calculate vals for each edge", new="                spanfrac = edge.span / self.spans[edge.child] + 0 * self.ts.nodes_time[edge.child]\n                # Calculate vals for each edge"),
    dict(name="prior-uses-input-times", mod="prior", expect="fire", rule="R11.1", old="    datable_nodes = np.where(datable_nodes)[0]\n\n    # convert timepoints", new="    datable_nodes = np.where(datable_nodes)[0]\n    scale_param = scale_param * (1 + ts.nodes_time.max())\n\n    # convert timepoints"),
    dict(name="id-ordering", mod="discrete", expect="fire", rule="R11.2", old="                if edge.parent in self.fixednodes:\n                    raise RuntimeError(", new="                if edge.parent < edge.child:\n                    continue\n                if edge.parent in self.fixednodes:\n                    raise RuntimeError("),
    dict(name="id-vs-count", mod="discrete", expect="fire", rule="R11.2", old="            if parent in self.fixednodes:\n                continue  # there is no hidden state", new="            if parent == self.ts.num_samples:\n                continue\n            if parent in self.fixednodes:\n                continue  # there is no hidden state"),
    dict(name="twin-extra-tiebreak", mod="discrete", expect="silent", old="                (self.ts.edges_child, -self.ts.nodes_time[self.ts.edges_child])", new="                (self.ts.edges_parent, self.ts.edges_child, -self.ts.nodes_time[self.ts.edges_child])"),
]
