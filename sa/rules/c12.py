"""C12 -- linear and logarithmic probability spaces agree: sibling homomorphism."""

import ast
import copy

from ..base import AnalysisError, U, own_nodes, stmts

GEOMETRY = {"__init__", "get_mut_edges", "precalculate_mutation_likelihoods", "get_mut_lik_fixed_node", "get_mut_lik_lower_tri", "get_mut_lik_upper_tri", "make_lower_tri", "make_upper_tri", "n_breaks", "_recombination_lik", "_recombination_loglik", "logsumexp"}
CALL_TAU = {"np.sum": "self.logsumexp", "scipy.stats.poisson.pmf": "scipy.stats.poisson.logpmf", "Likelihoods._lik": "LogLikelihoods._lik", "self._recombination_lik": "self._recombination_loglik", "np.prod": "np.sum"}


class Tau(ast.NodeTransformer):
    """image of a linear-space method body in log space"""

    def visit_BinOp(self, n):
        self.generic_visit(n)
        if isinstance(n.op, ast.Mult):
            return ast.BinOp(n.left, ast.Add(), n.right)
        if isinstance(n.op, ast.Div):
            return ast.BinOp(n.left, ast.Sub(), n.right)
        if isinstance(n.op, ast.Pow):
            return ast.BinOp(n.right, ast.Mult(), n.left)
        return n

    def visit_AugAssign(self, n):
        self.generic_visit(n)
        if isinstance(n.op, ast.Mult):
            return ast.AugAssign(n.target, ast.Add(), n.value)
        if isinstance(n.op, ast.Div):
            return ast.AugAssign(n.target, ast.Sub(), n.value)
        return n

    def visit_Call(self, n):
        fn = U(n.func)
        if fn.endswith((".pmf", ".logpmf")):
            # the arguments of the Poisson mass function are counts and rates, not likelihoods
            if fn in CALL_TAU:
                n.func = ast.parse(CALL_TAU[fn], mode="eval").body
            return n
        self.generic_visit(n)
        fn = U(n.func)
        if fn in CALL_TAU:
            n.func = ast.parse(CALL_TAU[fn], mode="eval").body
        return n


class Canon(ast.NodeTransformer):
    """rename parameters positionally and locals by order of first binding; sort operands of +"""

    def __init__(self, f):
        self.map = {}
        for i, a in enumerate(f.args.args):
            self.map[a.arg] = f"P{i}"
        self.n = 0

    def visit_Name(self, n):
        if n.id not in self.map:
            if isinstance(n.ctx, ast.Store):
                self.map[n.id] = f"L{self.n}"
                self.n += 1
            else:
                return n
        return ast.Name(id=self.map[n.id], ctx=n.ctx)

    def visit_BinOp(self, n):
        self.generic_visit(n)
        if isinstance(n.op, (ast.Add, ast.Mult)):
            a, b = sorted([n.left, n.right], key=U)
            return ast.BinOp(a, n.op, b)
        return n

    def visit_keyword(self, n):
        self.generic_visit(n)
        return n


def canon(f, tau=False):
    body = [copy.deepcopy(s) for s in f.body if not (isinstance(s, ast.Expr) and isinstance(s.value, ast.Constant))]
    if tau:
        body = [Tau().visit(s) for s in body]
    c = Canon(f)
    body = [c.visit(s) for s in body]
    return [U(ast.fix_missing_locations(s)) for s in body]


def has_lik_arithmetic(f):
    for n in own_nodes(f):
        if isinstance(n, ast.BinOp) and isinstance(n.op, (ast.Mult, ast.Div, ast.Pow)):
            return True
        if isinstance(n, ast.AugAssign) and isinstance(n.op, (ast.Mult, ast.Div)):
            return True
        if isinstance(n, ast.Call) and U(n.func) in ("np.sum", "np.prod", "np.add.reduceat") or isinstance(n, ast.Call) and U(n.func).endswith((".pmf", ".logpmf")):
            return True
    return False


def class_consts(cdef):
    return {U(s.targets[0]): s.value for s in cdef.body if isinstance(s, ast.Assign)}


def segment_logsumexp_source(f):
    """for the hand-written segment-wise logsumexp loops: the index attribute they iterate"""
    start = None
    loop = None
    for s in f.body:
        if isinstance(s, ast.Assign) and U(s.targets[0]) == "i_start":
            start = s.value
        if isinstance(s, ast.For):
            loop = s
    if start is None or loop is None:
        return None
    # i_start = IDX[0]; for i in IDX[1:]
    a = start.value if isinstance(start, ast.Subscript) else None
    b = loop.iter.value if isinstance(loop.iter, ast.Subscript) else None
    if a is None or b is None or U(a) != U(b) or U(start.slice) != "0" or U(loop.iter.slice) != "1:":
        return None
    body = [U(x).replace(" ", "") for x in loop.body]
    arr = f.args.args[1].arg
    tail = [U(x).replace(" ", "") for x in f.body[f.body.index(loop) + 1 :]]
    ok = body == [f"res.append(self.logsumexp({arr}[i_start:i]))", "i_start=i"] and tail[:2] == [f"res.append(self.logsumexp({arr}[i:]))", "returnnp.array(res)"]
    return U(a) if ok else None


def prior_space_follows_likelihood(repo, res, rid):
    """BeliefPropagation.__init__ must bring the prior grid into the likelihood's space for *every*
    space, unconditionally: priors are mutated in place by earlier runs (a log-space run leaves the
    caller's object in log space), so converting only towards one space makes a later run in the
    other space combine log priors with linear likelihoods."""
    from ..base import Defs, bool_guards

    f = repo.fn("discrete", "BeliefPropagation.__init__")
    d = Defs(f)
    calls = []
    for st, g in stmts(f):
        for c in ast.walk(st) if isinstance(st, (ast.Expr, ast.Assign)) else []:
            if isinstance(c, ast.Call) and isinstance(c.func, ast.Attribute) and c.func.attr == "force_probability_space" and d.origins(c.func.value) & {"<param priors>", "self.priors"}:
                calls.append((c, g))
    if not calls:
        res.bad(rid, "discrete.BeliefPropagation.__init__ converts the priors to the likelihood's probability space", "no force_probability_space call on the prior grid: priors left in whatever space an earlier run put them", repo.loc(f))
        return
    for c, g in calls:
        # `if bad: raise ...` rejections are not conditions of the normal path
        rejecting = {id(x.test) for x, _ in stmts(f) if isinstance(x, ast.If) and x.body and isinstance(x.body[-1], ast.Raise) and not x.orelse}
        conds = [U(e) if pol else f"not ({U(e)})" for e, pol in bool_guards(g) if not (not pol and id(e) in rejecting)]
        arg = c.args[0] if c.args else next((k.value for k in c.keywords), None)
        o = d.origins(arg) if arg is not None else set()
        ok_arg = o and o <= {"lik.probability_space", "self.lik.probability_space"}
        if conds:
            res.bad(rid, "discrete.BeliefPropagation.__init__ converts the priors to the likelihood's probability space", f"the conversion runs only when {' and '.join(conds)}: a prior object left in the other space by an earlier run is then combined with likelihoods of this space", repo.loc(f, c))
        elif not ok_arg:
            res.bad(rid, "discrete.BeliefPropagation.__init__ converts the priors to the likelihood's probability space", f"target space is `{U(arg)}` (origins {sorted(o)}), not lik.probability_space", repo.loc(f, c))
        else:
            res.ok(rid, "discrete.BeliefPropagation.__init__ converts the priors to the likelihood's probability space", "unconditional force_probability_space(lik.probability_space)", repo.loc(f, c))


def run(repo, res):
    res.rule("R12.1", "each likelihood-space operation of Likelihoods has a LogLikelihoods override that is its image under tau (x -> +, / -> -, v**f -> f*v, np.sum -> logsumexp, pmf -> logpmf, 1 -> 0, 0 -> -inf, reduceat over I -> segment-wise logsumexp over the same I), compared on normalised ASTs; an arithmetic operation without override is a violation")
    res.rule("R12.2", "in BeliefPropagation values in likelihood space are combined only through self.lik.* (and max/argmax); raw * / + - np.sum on them is a violation; the Poisson function of outside_maximization is chosen per space like _lik")
    res.rule("R12.3", "force_probability_space applies the same conversion (exp / log) to both data arrays and records the target space; standardize's branches are tau images; arithmetic on the posterior grid happens only after conversion to linear space")
    lin = repo.cls("discrete", "Likelihoods")
    log = repo.cls("discrete", "LogLikelihoods")
    m = repo.mods["discrete"]
    lin_m = {q.split(".", 1)[1]: f for q, f in m.funcs.items() if q.startswith("Likelihoods.") and q.count(".") == 1}
    log_m = {q.split(".", 1)[1]: f for q, f in m.funcs.items() if q.startswith("LogLikelihoods.") and q.count(".") == 1}
    n_ops = 0
    for name, f in sorted(lin_m.items()):
        if name in GEOMETRY or not has_lik_arithmetic(f):
            continue
        n_ops += 1
        cons = f"discrete.LogLikelihoods.{name} is the tau-image of Likelihoods.{name}"
        g = log_m.get(name)
        if g is None:
            res.bad("R12.1", cons, f"Likelihoods.{name} performs arithmetic on likelihood values but LogLikelihoods does not override it: the linear formula would be applied to log values", repo.loc(f))
            continue
        if name in ("rowsum_lower_tri", "rowsum_upper_tri"):
            ra = [c for c in own_nodes(f) if isinstance(c, ast.Call) and U(c.func) == "np.add.reduceat"]
            src_lin = U(ra[0].args[1]) if len(ra) == 1 else None
            src_log = segment_logsumexp_source(g)
            res.require(src_lin is not None and src_log == src_lin, "R12.1", cons, f"linear sums segments given by `{src_lin}`, log version iterates `{src_log}`", repo.loc(g), f"segments {src_lin}")
            continue
        a, b = canon(f, tau=True), canon(g)
        if a == b:
            res.ok("R12.1", cons, "; ".join(b)[:100], repo.loc(g))
        else:
            diff = next((f"expected `{x}` got `{y}`" for x, y in zip(a, b) if x != y), f"{len(a)} vs {len(b)} statements")
            res.bad("R12.1", cons, f"the override is not the image of the linear method under tau: {diff}", repo.loc(g))
    res.floor("likelihood_space_operations", n_ops, 10)
    lc, gc = class_consts(lin), class_consts(log)
    okc = U(lc.get("identity_constant")) == "1.0" and U(gc.get("identity_constant")) in ("0.0", "0") and U(lc.get("null_constant")) in ("0.0", "0") and U(gc.get("null_constant")) in ("-np.inf", "-inf")
    res.require(okc, "R12.1", "discrete identity/null constants are (1, 0) and (0, -inf)", f"lin {U(lc.get('identity_constant'))}/{U(lc.get('null_constant'))}, log {U(gc.get('identity_constant'))}/{U(gc.get('null_constant'))}", repo.loc("discrete", log))
    okp = U(lc.get("probability_space")) == "LIN_GRID" and U(gc.get("probability_space")) == "LOG_GRID"
    res.require(okp, "R12.1", "discrete probability_space tags", "classes are not tagged LIN_GRID / LOG_GRID", repo.loc("discrete", log))
    # overrides without a linear counterpart doing arithmetic
    for name, g in log_m.items():
        if name not in lin_m and name not in GEOMETRY:
            res.unres("R12.1", f"discrete.LogLikelihoods.{name} has no linear sibling", "extra method", repo.loc(g))
    # main_algorithm picks the class from the requested space
    ma = repo.fn("core", "DiscreteTimeMethod.main_algorithm")
    ok = False
    for s in ma.body:
        if isinstance(s, ast.If):
            t1 = U(s.test).replace(" ", "")
            b1 = [U(c.func) for c in ast.walk(ast.Module(body=s.body, type_ignores=[])) if isinstance(c, ast.Call)]
            e = s.orelse[0] if s.orelse and isinstance(s.orelse[0], ast.If) else None
            if e is not None:
                t2 = U(e.test).replace(" ", "")
                b2 = [U(c.func) for c in ast.walk(ast.Module(body=e.body, type_ignores=[])) if isinstance(c, ast.Call)]
                ok = t1 == "probability_space==LIN_GRID" and "discrete.Likelihoods" in b1 and t2 == "probability_space==LOG_GRID" and "discrete.LogLikelihoods" in b2
    res.require(ok, "R12.1", "core.DiscreteTimeMethod.main_algorithm selects Likelihoods for LIN_GRID and LogLikelihoods for LOG_GRID", "class selection does not follow the requested space", repo.loc(ma))

    # R12.2 -------------------------------------------------------------------------
    LIKSRC = ("self.lik.", "self.priors[", "inside[", "outside[", "self.inside[", "self.g_i", "denominator[", "self.denominator[", "g_i[", "self.lik.identity_constant", "self.lik.null_constant")
    n_raw = 0
    for meth in ("inside_pass", "outside_pass", "outside_maximization"):
        f = repo.fn("discrete", f"BeliefPropagation.{meth}")
        tainted = set()
        changed = True
        assigns = [n for n in own_nodes(f) if isinstance(n, ast.Assign)]

        def is_lik(e):
            t = U(e)
            if isinstance(e, ast.Name):
                return e.id in tainted
            if isinstance(e, ast.Call):
                fn = U(e.func)
                if fn.startswith("self.lik.") and not fn.endswith(("make_lower_tri", "make_upper_tri")):
                    return True
                if fn.startswith("self.lik.make_"):
                    return any(is_lik(a) for a in e.args)
                if fn in ("poisson",) or fn.endswith((".pmf", ".logpmf")):
                    return True
                if fn in ("np.full",) and len(e.args) > 1 and "self.lik." in U(e.args[1]):
                    return True
                if fn.endswith(".copy") and isinstance(e.func, ast.Attribute):
                    return is_lik(e.func.value)
                return False
            if isinstance(e, ast.Subscript):
                return is_lik(e.value) or any(t.startswith(s) for s in ("self.priors[", "inside[", "outside[", "self.inside[", "self.g_i[", "g_i[")) or U(e.value) in ("denominator", "self.denominator")
            if isinstance(e, ast.Attribute):
                return t in ("self.lik.identity_constant", "self.lik.null_constant", "self.g_i") or (e.attr == "grid_data")
            if isinstance(e, ast.IfExp):
                return is_lik(e.body) or is_lik(e.orelse)
            return False

        while changed:
            changed = False
            for a in assigns:
                if is_lik(a.value):
                    for t in a.targets:
                        if isinstance(t, ast.Name) and t.id not in tainted:
                            tainted.add(t.id)
                            changed = True
        for n in own_nodes(f):
            bad = None
            if isinstance(n, ast.BinOp) and isinstance(n.op, (ast.Mult, ast.Div, ast.Add, ast.Sub, ast.Pow)) and (is_lik(n.left) or is_lik(n.right)):
                bad = n
            if isinstance(n, ast.AugAssign) and isinstance(n.op, (ast.Mult, ast.Div, ast.Add, ast.Sub)) and (is_lik(n.target) or is_lik(n.value)):
                bad = n
            if isinstance(n, ast.Call) and U(n.func) in ("np.sum", "np.prod", "np.exp", "np.log", "np.mean") and n.args and is_lik(n.args[0]):
                bad = n
            if bad is not None:
                n_raw += 1
                res.bad("R12.2", f"discrete.BeliefPropagation.{meth} raw arithmetic `{U(bad)[:60]}`", "likelihood-space values combined without going through self.lik.*: the expression is right in one probability space only", repo.loc(f, bad))
        res.ok("R12.2", f"discrete.BeliefPropagation.{meth} combines likelihood-space values only through self.lik.*", f"{len(tainted)} likelihood-space locals: {sorted(tainted)[:8]}", repo.loc(f))
    om = repo.fn("discrete", "BeliefPropagation.outside_maximization")
    sel = {}
    for s in om.body:
        if isinstance(s, ast.If) and "probability_space" in U(s.test):
            cur = s
            while cur is not None:
                space = U(cur.test.comparators[0])
                for x in cur.body:
                    if isinstance(x, ast.Assign) and U(x.targets[0]) == "poisson":
                        sel[space] = U(x.value)
                cur = cur.orelse[0] if cur.orelse and isinstance(cur.orelse[0], ast.If) else None
    res.require(sel == {"LOG_GRID": "scipy.stats.poisson.logpmf", "LIN_GRID": "scipy.stats.poisson.pmf"}, "R12.2", "discrete.BeliefPropagation.outside_maximization Poisson function follows the probability space", f"selection {sel}", repo.loc(om), f"{sel}")

    res.rule("R12.4", "BeliefPropagation.__init__ converts the prior grid to lik.probability_space unconditionally (for either space), so priors and likelihoods are always combined in one space whatever an earlier run did to the caller's prior object")
    prior_space_follows_likelihood(repo, res, "R12.4")
    # R12.3 -------------------------------------------------------------------------
    fp = repo.fn("node_time_class", "NodeTimeValues.force_probability_space")
    conv = {}
    for s, g in stmts(fp):
        if isinstance(s, ast.Assign) and U(s.targets[0]) in ("self.grid_data", "self.fixed_data") and isinstance(s.value, ast.Call):
            conds = tuple(U(e).replace(" ", "") for e, pol in g if not isinstance(e, str) and pol)
            conv.setdefault(conds, {})[U(s.targets[0])] = (U(s.value.func), U(s.value.args[0]))
        if isinstance(s, ast.Assign) and U(s.targets[0]) == "self.probability_space":
            conds = tuple(U(e).replace(" ", "") for e, pol in g if not isinstance(e, str) and pol)
            conv.setdefault(conds, {})["state"] = U(s.value)
    n_conv = 0
    for conds, d in conv.items():
        target = next((c.split("==")[1] for c in conds if c.startswith("probability_space==")), None)
        source = next((c.split("==")[1] for c in conds if c.startswith("self.probability_space==")), None)
        fnw = {"LIN_GRID": "np.exp", "LOG_GRID": "np.log"}.get(target)
        ok = d.get("self.grid_data") == (fnw, "self.grid_data") and d.get("self.fixed_data") == (fnw, "self.fixed_data") and d.get("state") == target and source != target
        n_conv += 1
        res.require(ok, "R12.3", f"node_time_class.NodeTimeValues.force_probability_space {source} -> {target}", f"conversion applies {d}; expected {fnw} on both arrays and state = {target}", repo.loc(fp), f"{fnw} on grid_data and fixed_data")
    res.floor("space_conversions", n_conv, 2)
    sd = repo.fn("node_time_class", "NodeTimeValues.standardize")
    br = {}
    for s, g in stmts(sd):
        if isinstance(s, ast.Assign) and U(s.targets[0]) == "self.grid_data":
            conds = [U(e).replace(" ", "") for e, pol in g if not isinstance(e, str) and pol]
            space = next((c.split("==")[1] for c in conds if c.startswith("self.probability_space==")), None)
            br[space] = s.value
    ok = set(br) == {"LIN_GRID", "LOG_GRID"} and isinstance(br["LIN_GRID"], ast.BinOp) and isinstance(br["LIN_GRID"].op, ast.Div) and isinstance(br["LOG_GRID"], ast.BinOp) and isinstance(br["LOG_GRID"].op, ast.Sub) and U(br["LIN_GRID"].left) == U(br["LOG_GRID"].left) and U(br["LIN_GRID"].right) == U(br["LOG_GRID"].right)
    res.require(ok, "R12.3", "node_time_class.NodeTimeValues.standardize divides (linear) / subtracts (log) the same row maximum", "branches are not tau images", repo.loc(sd))
    tp = repo.fn("node_time_class", "NodeTimeValues.to_probabilities")
    first = tp.body[0] if not (isinstance(tp.body[0], ast.Expr)) else tp.body[1]
    ok = isinstance(first, ast.If) and U(first.test).replace(" ", "") == "self.probability_space!=LIN_GRID" and isinstance(first.body[0], ast.Raise)
    res.require(ok, "R12.3", "node_time_class.NodeTimeValues.to_probabilities refuses non-linear grids", "no guard on the probability space", repo.loc(tp))
    run_io = repo.fn("core", "InsideOutsideMethod.run")
    seq = [U(c.func).split(".")[-1] + ("(" + U(c.args[0]) + ")" if c.args and U(c.func).endswith("force_probability_space") else "") for c in sorted([c for c in own_nodes(run_io) if isinstance(c, ast.Call)], key=lambda c: c.lineno) if "posterior_grid" in U(c.func) or U(c.func) == "self.mean_var"]
    res.require(seq == ["standardize", "force_probability_space(LIN_GRID)", "to_probabilities", "mean_var"], "R12.3", "core.InsideOutsideMethod.run converts the posterior grid to linear space before normalising and taking moments", f"sequence {seq}", repo.loc(run_io), " < ".join(seq))


VARIANTS = [
    dict(name="prior-conversion-only-towards-log", mod="discrete", expect="fire", rule="R12.4", old="        self.priors.force_probability_space(lik.probability_space)\n", new="        if lik.probability_space == LOG_GRID:\n            self.priors.force_probability_space(lik.probability_space)\n"),
    dict(name="prior-conversion-fixed-target", mod="discrete", expect="fire", rule="R12.4", old="        self.priors.force_probability_space(lik.probability_space)\n", new="        self.priors.force_probability_space(LOG_GRID)\n"),
    dict(name="log-combine-multiplies", mod="discrete", expect="fire", rule="R12.1", old="        return loglik_1 + loglik_2", new="        return loglik_1 * loglik_2"),
    dict(name="log-scale-power", mod="discrete", expect="fire", rule="R12.1", old="        return fraction * value", new="        return value**fraction"),
    dict(name="override-deleted", mod="discrete", expect="fire", rule="R12.1", old="    def marginalize(self, loglik):\n        \"\"\"\n        Return the logged sum of likelihoods\n        \"\"\"\n        return self.logsumexp(loglik)\n", new=""),
    dict(name="rowsum-wrong-index", mod="discrete", expect="fire", rule="R12.1", old="        i_start = self.col_indices[0]\n        for i in self.col_indices[1:]:", new="        i_start = self.row_indices[0][0]\n        for i in self.row_indices[0][1:]:"),
    dict(name="log-lik-uses-pmf", mod="discrete", expect="fire", rule="R12.1", old="        ll = scipy.stats.poisson.logpmf(muts, dt * mutation_rate * span)", new="        ll = np.log(scipy.stats.poisson.pmf(muts, dt * mutation_rate * span))"),
    dict(name="log-standardize-divides", mod="discrete", expect="fire", rule="R12.1", old="            return ll - np.max(ll)", new="            return ll / np.max(ll)"),
    dict(name="null-constant-zero", mod="discrete", expect="fire", rule="R12.1", old="    null_constant = -np.inf", new="    null_constant = 0.0"),
    dict(name="new-linear-op-without-override", mod="discrete", expect="fire", rule="R12.1", old="    def scale_geometric(self, fraction, value):\n        return value**fraction\n\n\nclass LogLikelihoods", new="    def scale_geometric(self, fraction, value):\n        return value**fraction\n\n    def average(self, a, b):\n        return (a * b) ** 0.5\n\n\nclass LogLikelihoods"),
    dict(name="raw-product-in-inside", mod="discrete", expect="fire", rule="R12.2", old="                val = self.lik.combine(val, edge_lik)\n                if cache_inside:", new="                val = val * edge_lik\n                if cache_inside:"),
    dict(name="raw-division-in-outside", mod="discrete", expect="fire", rule="R12.2", old="            outside[child] = self.lik.ratio(val, self.denominator[child])", new="            outside[child] = val / self.denominator[child]"),
    dict(name="poisson-swapped", mod="discrete", expect="fire", rule="R12.2", old="        if self.lik.probability_space == LOG_GRID:\n            poisson = scipy.stats.poisson.logpmf\n        elif self.lik.probability_space == LIN_GRID:\n            poisson = scipy.stats.poisson.pmf", new="        if self.lik.probability_space == LOG_GRID:\n            poisson = scipy.stats.poisson.pmf\n        elif self.lik.probability_space == LIN_GRID:\n            poisson = scipy.stats.poisson.logpmf"),
    dict(name="fixed-data-not-converted", mod="node_time_class", expect="fire", rule="R12.3", old="                self.grid_data = np.exp(self.grid_data)\n                self.fixed_data = np.exp(self.fixed_data)", new="                self.grid_data = np.exp(self.grid_data)"),
    dict(name="state-not-updated", mod="node_time_class", expect="fire", rule="R12.3", old="                    self.fixed_data = np.log(self.fixed_data)\n                self.probability_space = LOG_GRID", new="                    self.fixed_data = np.log(self.fixed_data)"),
    dict(name="moments-before-conversion", mod="core", expect="fire", rule="R12.3", old="        fit_obj.posterior_grid.force_probability_space(LIN_GRID)\n        fit_obj.posterior_grid.to_probabilities()", new="        fit_obj.posterior_grid.to_probabilities()\n        fit_obj.posterior_grid.force_probability_space(LIN_GRID)"),
    dict(name="twin-param-rename", mod="discrete", expect="silent", old="    def combine(self, loglik_1, loglik_2):\n        return loglik_1 + loglik_2", new="    def combine(self, a, b):\n        return a + b"),
    dict(name="twin-commuted", mod="discrete", expect="silent", old="        return fraction * value", new="        return value * fraction"),
]
