"""C13 -- maximization picks ordered grid timepoints: domain-bound clause."""

import ast

from ..base import AnalysisError, Defs, U, bool_guards, own_nodes, stmts, walk_guarded


def slice_upper(sub):
    """text of the upper bound of `x[: U]`, else None"""
    if isinstance(sub, ast.Subscript) and isinstance(sub.slice, ast.Slice) and sub.slice.lower is None and sub.slice.step is None and sub.slice.upper is not None:
        return U(sub.slice.upper).replace(" ", "").strip("()")
    return None


def run(repo, res):
    res.rule("R13.1", "the reported times are lik.timepoints indexed by the integer assignment vector; nodes that are never a child take the argmax of their inside row")
    res.rule("R13.3", "clone consistency: the Poisson likelihood of an edge is the same expression (mutations, (parent time - grid + eps) * rate * span) in the first-parent branch and in the later-parents branch of outside_maximization")
    res.rule("R13.2", "running-minimum abstract domain: the bound Y is initialised from the first parent's assigned index and updated only by Y := min(Y, index(parent)), hence Y <= index(parent) for every parent; every per-parent likelihood, the running product and the inside row entering the final argmax are sliced [: Y + 1]; parents are assigned before their children (traversal by descending child age)")
    f = repo.fn("discrete", "BeliefPropagation.outside_maximization")
    d = Defs(f)
    # R13.1
    pm = [s for s, g in stmts(f) if isinstance(s, ast.Assign) and U(s.targets[0]) == "self.posterior_mean"]
    ok = len(pm) == 1 and isinstance(pm[0].value, ast.Subscript) and U(pm[0].value.value) == "self.lik.timepoints" and "maximized_node_times" in U(pm[0].value.slice)
    res.require(ok, "R13.1", "discrete.outside_maximization posterior_mean = lik.timepoints[assignment]", f"`{U(pm[0].value) if pm else None}`", repo.loc(f))
    assign = "maximized_node_times"
    ini = d.single(assign)
    res.require(ini is not None and U(ini).replace(" ", "").replace('"', "'") == "np.zeros(self.ts.num_nodes,dtype='int')", "R13.1", "discrete.outside_maximization assignment vector is an integer vector over all nodes", f"`{U(ini)}`", repo.loc(f))
    roots = [(s, g) for s, g in stmts(f) if isinstance(s, ast.Assign) and isinstance(s.targets[0], ast.Subscript) and U(s.targets[0].value) == assign and U(s.value).replace(" ", "") == f"np.argmax(self.inside[{U(s.targets[0].slice)}])"]
    okr = len(roots) == 1
    if okr:
        loops = [n for e, n in roots[0][1] if e == "loop"]
        okr = bool(loops) and d.origins(loops[-1].iter) == {"np.where(np.isin(np.arange(self.ts.num_nodes), self.ts.edges_child, invert=True))[0]"}
        okr = okr and any((not pol) is False and "not in self.fixednodes" in U(e) or (pol and "not in self.fixednodes" in U(e)) for e, pol in bool_guards(roots[0][1]))
    res.require(okr, "R13.1", "discrete.outside_maximization nodes that are never a child take argmax of their inside row", "root initialisation differs", repo.loc(f))
    # R13.2 -- find Y: the name used as `: Y + 1` in the final argmax
    fin = [s for s, g in stmts(f) if isinstance(s, ast.Assign) and isinstance(s.targets[0], ast.Subscript) and U(s.targets[0].value) == assign and U(s.targets[0].slice) == "child"]
    if len(fin) != 1:
        raise AnalysisError("R13.2: final assignment of the child not found")
    am = fin[0].value
    if not (isinstance(am, ast.Call) and U(am.func) == "np.argmax" and isinstance(am.args[0], ast.Call) and U(am.args[0].func) == "self.lik.combine"):
        raise AnalysisError("R13.2: final argmax(combine(...)) shape not recognised")
    ops = am.args[0].args
    bounds = set()
    for o in ops:
        v = d.single(o.id) if isinstance(o, ast.Name) else o
        up = slice_upper(v) if v is not None else None
        bounds.add(up)
    Ytxt = next(iter(bounds)) if len(bounds) == 1 else None
    okb = Ytxt is not None and Ytxt.endswith("+1")
    res.require(okb, "R13.2", "discrete.outside_maximization both operands of the final argmax are sliced [: Y + 1] with one bound", f"operand bounds {sorted(str(b) for b in bounds)}", repo.loc(f, fin[0]), str(Ytxt))
    if not okb:
        return
    Y = Ytxt[:-2]
    # all assignments to Y
    ys = [(s, g) for s, g in stmts(f) if isinstance(s, ast.Assign) and U(s.targets[0]) == Y]
    n_init = n_upd = 0
    for s, g in ys:
        guards = [(U(e).replace(" ", ""), pol) for e, pol in bool_guards(g)]
        v = U(s.value).replace(" ", "")
        if v == f"{assign}[edge.parent]" and ("edge_index==0", True) in guards:
            n_init += 1
            res.ok("R13.2", f"discrete.outside_maximization {Y} is initialised from the first parent's index", U(s), repo.loc(f, s))
        else:
            # Y = cur under cur < Y ; or Y = min(Y, cur)
            cur = s.value
            src = d.single(cur.id) if isinstance(cur, ast.Name) else None
            is_parent_idx = src is not None and U(src).replace(" ", "") == f"{assign}[edge.parent]"
            guarded = isinstance(cur, ast.Name) and ((f"{cur.id}<{Y}", True) in guards or (f"{Y}>{cur.id}", True) in guards)
            minform = isinstance(cur, ast.Call) and U(cur.func) in ("min", "np.minimum") and Y in [U(a) for a in cur.args]
            n_upd += 1
            res.require((guarded and is_parent_idx) or minform, "R13.2", f"discrete.outside_maximization {Y} is only ever lowered to a parent's index", f"`{U(s)}` under {[t for t, p in guards if p][-1:]} is not Y := min(Y, index(parent)): a child could be placed above one of its parents", repo.loc(f, s), U(s))
    res.require(n_init == 1 and n_upd >= 1, "R13.2", f"discrete.outside_maximization {Y} has one initialisation and a lowering update", f"{n_init} initialisations, {n_upd} updates", repo.loc(f))
    # every slice in the per-edge loop uses Y + 1
    n_sl = 0
    for s, g in stmts(f):
        if not any(e == "loop" and U(n.target).startswith("(edge_index") or e == "loop" and "edge_index" in U(n.target) for e, n in g):
            continue
        for n in ast.walk(s) if not isinstance(s, (ast.If, ast.For)) else []:
            up = slice_upper(n) if isinstance(n, ast.Subscript) else None
            if up is not None:
                n_sl += 1
                res.require(up == Ytxt, "R13.2", f"discrete.outside_maximization slice `{U(n)[:50]}` is bounded by {Y} + 1", f"bounded by `{up}`", repo.loc(f, n), up)
    res.floor("bounded_slices", n_sl, 6)
    # R13.3 -- the first-parent branch and the later-parent branch score an edge identically
    from .c10 import block_defs, inline_block

    pairs = []
    for s, g in stmts(f):
        if isinstance(s, ast.If) and s.orelse:
            db, do = block_defs(s.body), block_defs(s.orelse)
            common = [k for k in db if k in do and isinstance(db[k], ast.Call) and isinstance(do[k], ast.Call) and U(db[k].func) == U(do[k].func) and U(db[k].func) not in ("self.lik.ratio", "self.lik.combine")]
            for k in common:
                if U(db[k].func) in ("poisson",) or "pmf" in U(db[k].func):
                    pairs.append((s, k, db, do))
    if not pairs:
        raise AnalysisError("R13.3: the two per-edge likelihood evaluations (first parent / later parents) were not found")
    for s, k, db, do in pairs:
        a = U(inline_block(db[k], {n: v for n, v in db.items() if n not in (k, Y)})).replace(" ", "")
        b = U(inline_block(do[k], {n: v for n, v in do.items() if n not in (k, Y)})).replace(" ", "")
        res.require(a == b, "R13.3", f"discrete.outside_maximization `{k}` is the same function of the edge for the first and for later parents", f"first parent: `{a[:160]}`; later parents: `{b[:160]}`: edges to a second parent are scored by a different likelihood, so the argmax is not that of the documented product", repo.loc(f, s), a[:120])
    # traversal order: parents before children
    it = [n for n in own_nodes(f) if isinstance(n, ast.For) and isinstance(n.target, ast.Tuple) and U(n.target.elts[0]) == "child"]
    ok = len(it) == 1 and "edges_by_child_then_parent_desc" in U(it[0].iter)
    g = repo.fn("discrete", "BeliefPropagation.edges_by_child_then_parent_desc")
    t = U(g).replace(" ", "").replace('"', "'")
    ok = ok and "reversed(np.argsort(w,order=('child_age','child_node','parent_age')))" in t and "w['child_age']=self.ts.nodes_time[self.ts.edges_child]" in t
    res.require(ok, "R13.2", "discrete.outside_maximization visits children in descending age so parents are assigned first", "traversal order differs", repo.loc(f))


_UPD = "                    if cur_parent_index < youngest_par_index:\n                        youngest_par_index = cur_parent_index\n"
VARIANTS = [
    dict(name="eps-dropped-for-later-parents", mod="discrete", expect="fire", rule="R13.3", old="                    ll_mut = poisson(\n                        mut_edges[edge.id],\n                        (\n                            parent_time\n                            - self.lik.timepoints[: youngest_par_index + 1]\n                            + eps\n                        )\n                        * self.lik.mut_rate\n                        * edge.span,\n                    )\n                    result[: youngest_par_index + 1]", new="                    ll_mut = poisson(\n                        mut_edges[edge.id],\n                        (parent_time - self.lik.timepoints[: youngest_par_index + 1])\n                        * self.lik.mut_rate\n                        * edge.span,\n                    )\n                    result[: youngest_par_index + 1]"),
    dict(name="running-max", mod="discrete", expect="fire", rule="R13.2", old=_UPD, new="                    if cur_parent_index > youngest_par_index:\n                        youngest_par_index = cur_parent_index\n"),
    dict(name="update-dropped", mod="discrete", expect="fire", rule="R13.2", old=_UPD, new=""),
    dict(name="bound-off-by-one", mod="discrete", expect="fire", rule="R13.2", old="            inside_val = self.inside[child][: (youngest_par_index + 1)]", new="            inside_val = self.inside[child][: (youngest_par_index + 2)]"),
    dict(name="result-unsliced", mod="discrete", expect="fire", rule="R13.2", old="                self.lik.combine(result[: youngest_par_index + 1], inside_val)", new="                self.lik.combine(result, inside_val)"),
    dict(name="init-from-child", mod="discrete", expect="fire", rule="R13.2", old="                    youngest_par_index = maximized_node_times[edge.parent]\n", new="                    youngest_par_index = maximized_node_times[edge.child]\n"),
    dict(name="ascending-traversal", mod="discrete", expect="fire", rule="R13.2", old="            for i in reversed(\n                np.argsort(w, order=(\"child_age\", \"child_node\", \"parent_age\"))\n            )", new="            for i in (\n                np.argsort(w, order=(\"child_age\", \"child_node\", \"parent_age\"))\n            )"),
    dict(name="means-not-grid-points", mod="discrete", expect="fire", rule="R13.1", old="        self.posterior_mean = self.lik.timepoints[\n            np.array(maximized_node_times).astype(\"int\")\n        ]", new="        self.posterior_mean = np.array(maximized_node_times).astype(\"float\")"),
    dict(name="twin-min-form", mod="discrete", expect="silent", old=_UPD, new="                    youngest_par_index = min(youngest_par_index, cur_parent_index)\n"),
]
