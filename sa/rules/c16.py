"""C16 -- discretised prior grids: structural clauses only."""

import ast

from ..base import AnalysisError, Defs, U, bool_guards, own_nodes, stmts
from ..paths import enum_paths


def run(repo, res):
    from . import sampleorder

    res.rule("R16.3", "sample nodes are identified by ts.samples() / the NODE_IS_SAMPLE bit, never by position in the node table: num_samples is used as a count only (no slice bound, no id range, no ordering comparison with a node id)")
    sampleorder.run(repo, res, "R16.3", floor=2, scope=["prior"])
    res.rule("R16.1", "in make_discretised_prior a user array reaches fill_priors only through np.sort, the three validation guards (>= 2 points, no negative, no duplicate -> ValueError) and the conversion to the coalescent scale; an integer only through create_timepoints, which returns the sorted quantile set with a literal 0 prepended")
    res.rule("R16.2", "in fill_priors the non-fixed node list is the complement of ts.samples(); each row is stored as concatenate([0], diff(cdf)) (first cell the literal 0) with the CDF evaluated on the coalescent-scale timepoints and divided by its maximum; standardize() runs on every path to the return and nothing writes the grid afterwards; the stored timepoints are the natural-scale image of the very array the CDFs were evaluated on")
    f = repo.fn("prior", "MixturePrior.make_discretised_prior")
    d = Defs(f)
    # user-array branch
    arr_assigns = [(s, g) for s, g in stmts(f) if isinstance(s, ast.Assign) and U(s.targets[0]) == "timepoints"]
    by_branch = {"int": [], "array": []}
    for s, g in arr_assigns:
        conds = [U(e).replace(" ", "") for e, pol in bool_guards(g) if pol]
        if any(c == "isinstance(timepoints,int)" for c in conds):
            by_branch["int"].append(s)
        elif any(c == "isinstance(timepoints,np.ndarray)" for c in conds):
            by_branch["array"].append(s)
    ok = len(by_branch["int"]) == 1 and U(by_branch["int"][0].value).replace(" ", "") == "create_timepoints(self.base_priors,timepoints+1)"
    res.require(ok, "R16.1", "prior.make_discretised_prior an integer grid size goes through create_timepoints(base_priors, n + 1)", f"{[U(s.value) for s in by_branch['int']]}", repo.loc(f))
    vals = [U(s.value).replace(" ", "") for s in by_branch["array"]]
    ok = len(vals) == 2 and vals[0].startswith("np.sort(timepoints.astype(") and vals[1] == "population_size.to_coalescent_timescale(timepoints)"
    res.require(ok, "R16.1", "prior.make_discretised_prior a user grid is sorted, validated and converted to the coalescent scale, nothing else", f"{vals}", repo.loc(f))
    guards = []
    for s, g in stmts(f):
        if isinstance(s, ast.If) and isinstance(s.body[0], ast.Raise) and "ValueError" in U(s.body[0]) and any(pol and "isinstance(timepoints, np.ndarray)" in U(e) for e, pol in bool_guards(g)):
            guards.append(U(s.test).replace(" ", ""))
    want = ["len(timepoints)<2", "np.any(timepoints<0)", "np.any(np.unique(timepoints,return_counts=True)[1]>1)"]
    res.require(sorted(guards) == sorted(want), "R16.1", "prior.make_discretised_prior user grids are rejected when shorter than 2, negative or duplicated", f"guards found {guards}", repo.loc(f), f"{guards}")
    if len(by_branch["array"]) == 2:
        lines = [s.lineno for s in by_branch["array"]]
        gl = [s.lineno for s, g in stmts(f) if isinstance(s, ast.If) and U(s.test).replace(" ", "") in want]
        res.require(all(lines[0] < x < lines[1] for x in gl), "R16.1", "prior.make_discretised_prior validation happens on the sorted array before conversion", "guards are not between sorting and conversion", repo.loc(f))
    fp = [c for c in own_nodes(f) if isinstance(c, ast.Call) and U(c.func) == "fill_priors"]
    ok = len(fp) == 1 and [U(a) for a in fp[0].args] == ["self.prior_params", "timepoints", "self.tree_sequence", "population_size"]
    res.require(ok, "R16.1", "prior.make_discretised_prior passes (prior_params, timepoints, tree_sequence, population_size) to fill_priors", f"{[U(a) for a in fp[0].args] if fp else None}", repo.loc(f))
    other = [s for s, g in stmts(f) if isinstance(s, ast.If) and U(s.test).replace(" ", "") == "timepoints<2" and isinstance(s.body[0], ast.Raise)]
    res.require(len(other) == 1, "R16.1", "prior.make_discretised_prior rejects fewer than 2 grid points for integer input", "guard missing", repo.loc(f))
    ct = repo.fn("prior", "create_timepoints")
    rets = [r for r in own_nodes(ct) if isinstance(r, ast.Return)]
    dc = Defs(ct)
    ok = len(rets) == 1 and U(rets[0].value).replace(" ", "") == "np.insert(t_set,0,0)" and any(isinstance(v, ast.Call) and U(v).replace(" ", "") == "sorted(t_set)" for v in dc.values("t_set"))
    last_sorted = max((s.lineno for s, g in stmts(ct) if isinstance(s, ast.Assign) and U(s.targets[0]) == "t_set" and U(s.value).replace(" ", "") == "sorted(t_set)"), default=0)
    later = [s for s, g in stmts(ct) if isinstance(s, ast.Assign) and U(s.targets[0]) == "t_set" and s.lineno > last_sorted]
    res.require(ok and not later, "R16.1", "prior.create_timepoints returns the sorted quantile set with 0 prepended", "the grid is not sorted last / does not start at 0", repo.loc(ct))
    # R16.2
    fl = repo.fn("prior", "fill_priors")
    df = Defs(fl)
    body = U(fl).replace(" ", "")
    dn = [U(v).replace(" ", "") for v in df.values("datable_nodes") if isinstance(v, ast.AST)]
    okn = dn == ["np.ones(ts.num_nodes,dtype=bool)", "np.where(datable_nodes)[0]"] and "datable_nodes[ts.samples()]=False" in body
    res.require(okn, "R16.2", "prior.fill_priors rows exist exactly for the complement of ts.samples()", f"datable nodes built as {dn}", repo.loc(fl))
    st = [(s, g) for s, g in stmts(fl) if isinstance(s, ast.Assign) and isinstance(s.targets[0], ast.Subscript) and U(s.targets[0].value) == "prior_times"]
    okr = len(st) == 1 and U(st[0][0].value).replace(" ", "") == "np.concatenate([np.array([0]),np.diff(prior_node)])"
    res.require(okr, "R16.2", "prior.fill_priors each row is [0] followed by the differences of the CDF", f"`{U(st[0][0].value) if st else None}`", repo.loc(fl))
    pn = [U(v).replace(" ", "") for v in df.values("prior_node") if isinstance(v, ast.AST)]
    okc = pn == ["cdf_func(timepoints,main_param[node],scale=scale_param[node])", "np.divide(prior_node,np.max(prior_node))"]
    res.require(okc, "R16.2", "prior.fill_priors the CDF is evaluated on the coalescent-scale timepoints and normalised by its maximum", f"{pn}", repo.loc(fl))
    ctor = df.single("prior_times")
    okt = ctor is not None and isinstance(ctor, ast.Call) and U(ctor.func) == "node_time_class.NodeTimeValues" and U(ctor.args[2]).replace(" ", "") == "population_size.to_natural_timescale(timepoints)" and "datable_nodes[" in U(ctor.args[1])
    res.require(okt, "R16.2", "prior.fill_priors the stored grid is the natural-scale image of the timepoints the CDFs were evaluated on", f"`{U(ctor)[:100] if ctor is not None else None}`", repo.loc(fl))
    tp_rebound = [s for s, g in stmts(fl) if isinstance(s, ast.Assign) and U(s.targets[0]) == "timepoints"]
    res.require(not tp_rebound, "R16.2", "prior.fill_priors does not rebind timepoints between the grid and the CDF evaluation", "timepoints is reassigned", repo.loc(fl))
    bad = 0
    paths = [p for p in enum_paths(fl) if p.exit == "return"]
    for p in paths:
        calls = [(U(c.func), c) for c in p.calls()]
        names = [n for n, c in calls]
        if "prior_times.standardize" not in names:
            bad += 1
            continue
        i = names.index("prior_times.standardize")
        after = [s for s in p.stmts() if s.lineno > calls[i][1].lineno and isinstance(s, (ast.Assign, ast.AugAssign)) and "prior_times" in U(s.targets[0] if isinstance(s, ast.Assign) else s.target)]
        if after or U(p.node.value) != "prior_times":
            bad += 1
    res.require(bad == 0 and bool(paths), "R16.2", "prior.fill_priors standardises last on every returning path and returns that object", f"{bad} of {len(paths)} paths differ", repo.loc(fl), f"{len(paths)} paths")
    sd = repo.fn("node_time_class", "NodeTimeValues.standardize")
    rm = Defs(sd).single("rowmax")
    res.require(rm is not None and U(rm).replace(" ", "") == "self.grid_data[:,1:].max(axis=1)", "R16.2", "node_time_class.NodeTimeValues.standardize scales each row by its largest entry", f"`{U(rm)}`", repo.loc(sd))


VARIANTS = [dict(v, rule="R16.3") for v in __import__("sa.rules.sampleorder", fromlist=["VARIANTS"]).VARIANTS if v["mod"] == "prior"] + [
    dict(name="user-grid-unsorted", mod="prior", expect="fire", rule="R16.1", old="                timepoints = np.sort(\n                    timepoints.astype(node_time_class.FLOAT_DTYPE, casting=\"safe\")\n                )", new="                timepoints = (\n                    timepoints.astype(node_time_class.FLOAT_DTYPE, casting=\"safe\")\n                )"),
    dict(name="duplicate-check-dropped", mod="prior", expect="fire", rule="R16.1", old="            elif np.any(np.unique(timepoints, return_counts=True)[1] > 1):\n                raise ValueError(\"Timepoints cannot have duplicate values\")\n", new=""),
    dict(name="user-grid-modified", mod="prior", expect="fire", rule="R16.1", old="            timepoints = population_size.to_coalescent_timescale(timepoints)\n        else:", new="            timepoints = population_size.to_coalescent_timescale(timepoints)\n            timepoints = np.unique(np.append(timepoints, 0))\n        else:"),
    dict(name="quantiles-unsorted", mod="prior", expect="fire", rule="R16.1", old="    t_set = sorted(t_set)\n    return np.insert(t_set, 0, 0)", new="    return np.insert(t_set, 0, 0)"),
    dict(name="no-zero-point", mod="prior", expect="fire", rule="R16.1", old="    return np.insert(t_set, 0, 0)", new="    return np.array(t_set)"),
    dict(name="first-cell-not-zero", mod="prior", expect="fire", rule="R16.2", old="        prior_times[node] = np.concatenate([np.array([0]), np.diff(prior_node)])", new="        prior_times[node] = np.concatenate([prior_node[:1], np.diff(prior_node)])"),
    dict(name="samples-get-rows", mod="prior", expect="fire", rule="R16.2", old="    datable_nodes[ts.samples()] = False\n    datable_nodes = np.where(datable_nodes)[0]\n\n    # convert timepoints", new="    datable_nodes = np.where(datable_nodes)[0]\n\n    # convert timepoints"),
    dict(name="no-standardize", mod="prior", expect="fire", rule="R16.2", old="    # standardize so max value is 1\n    prior_times.standardize()\n", new=""),
    dict(name="grid-from-other-array", mod="prior", expect="fire", rule="R16.2", old="        population_size.to_natural_timescale(timepoints),\n    )", new="        population_size.to_natural_timescale(np.sort(timepoints)[::-1]),\n    )"),
    dict(name="twin-comment", mod="prior", expect="silent", old="    # standardize so max value is 1\n", new="    # rescale rows\n"),
]
