"""C18 -- EP moment updates respect support: validity-gate clause (R18.1) and dispatch table (R18.2)."""

import ast

from ..base import AnalysisError, U, formula, guards_formula, implies, own_nodes, stmts
from .epgroups import closure_dispatch, groups

EXPECTED_DISPATCH = {
    # closure -> (approx function when phased edges, when unphased blocks)
    "propagate_likelihood": {
        "leafward_projection": ("approx.leafward_projection", "approx.sideways_projection"),
        "rootward_projection": ("approx.rootward_projection", "approx.sideways_projection"),
        "gamma_projection": ("approx.gamma_projection", "approx.unphased_projection"),
        "twin_projection": ("approx.twin_projection", "approx.twin_projection"),
    },
    "propagate_mutations": {
        "leafward_projection": ("approx.mutation_leafward_projection", "approx.mutation_sideways_projection"),
        "rootward_projection": ("approx.mutation_rootward_projection", "approx.mutation_sideways_projection"),
        "gamma_projection": ("approx.mutation_gamma_projection", "approx.mutation_unphased_projection"),
        "fixed_projection": ("approx.mutation_edge_projection", "approx.mutation_block_projection"),
        "twin_projection": ("approx.mutation_twin_projection", "approx.mutation_twin_projection"),
    },
}


def run(repo, res):
    res.rule("R18.1", "every call of approximate_gamma_mom(m, v) in the 14 projection wrappers is guarded by _valid_moments(m, v) (truth-table implication over the guard atoms); a returned phase probability is guarded by 0 <= pr <= 1, otherwise the first element is a literal in [0, 1] (mutation wrappers); failure paths return NaN plus the unchanged input parameters (node wrappers) or a NaN pair (mutation wrappers)")
    res.rule("R18.2", "dispatch table of propagate_likelihood / propagate_mutations: (fixed parent, free child) -> leafward|sideways with the parent's age; (fixed child, free parent) -> rootward|sideways with the child's age; both free -> gamma|unphased; p == c -> twin; both fixed -> skip | edge/block; the fixed age is constraints[<fixed node>, LOWER]")
    wrappers = [(q, f) for q, f in repo.mods["approx"].funcs.items() if q.endswith("_projection") and "." not in q]
    res.floor("projection_wrappers", len(wrappers), 14)
    for q, f in wrappers:
        name = f"approx.{q}"
        params = [a.arg for a in f.args.args]
        mutation = q.startswith("mutation_")
        n_calls = 0
        for s, g in stmts(f):
            for c in ast.walk(s) if not isinstance(s, (ast.If, ast.For, ast.While, ast.FunctionDef)) else []:
                if isinstance(c, ast.Call) and U(c.func) == "approximate_gamma_mom":
                    n_calls += 1
                    want = ast.parse(f"_valid_moments({', '.join(U(a) for a in c.args)})", mode="eval").body
                    ok = implies(guards_formula(g), formula(want))
                    res.require(ok, "R18.1", f"{name} `{U(c)}` is reached only with valid moments", f"the path condition `{' and '.join(('' if p else 'not ') + '(' + U(e) + ')' for e, p in g if not isinstance(e, str)) or 'True'}` does not imply {U(want)}: invalid moments reach the gamma fit", repo.loc(f, c), f"guards imply {U(want)}")
        if n_calls == 0:
            raise AnalysisError(f"R18.1: {name} has no approximate_gamma_mom call")
        rets = [(s, g) for s, g in stmts(f) if isinstance(s, ast.Return)]
        final = rets[-1]
        for s, g in rets:
            v = s.value
            elts = v.elts if isinstance(v, ast.Tuple) else [v]
            first = elts[0]
            success = s is final[0]
            if success:
                if isinstance(first, ast.Name) and mutation:
                    want = ast.parse(f"0 <= {first.id} <= 1", mode="eval").body
                    ok = implies(guards_formula(g), formula(want))
                    res.require(ok, "R18.1", f"{name} returned phase probability `{first.id}` lies in [0, 1]", f"path condition does not imply {U(want)}", repo.loc(f, s), f"guards imply {U(want)}")
                elif mutation:
                    okl = isinstance(first, ast.Constant) and isinstance(first.value, (int, float)) and 0 <= first.value <= 1
                    res.require(okl, "R18.1", f"{name} returned phase probability is a literal in [0, 1]", f"first element is `{U(first)}`", repo.loc(f, s), U(first))
            else:
                okn = U(first) in ("np.nan", "nan")
                rest = [U(x) for x in elts[1:]]
                if mutation:
                    okr = rest == ["np.full(2, np.nan)"]
                else:
                    okr = all(r in params for r in rest) and len(rest) == len([p for p in params if p.startswith("pars_") and p != "pars_ij"])
                    # the returned parameter arrays are not modified in place
                    for n in own_nodes(f):
                        if isinstance(n, (ast.Assign, ast.AugAssign)):
                            for t in n.targets if isinstance(n, ast.Assign) else [n.target]:
                                if isinstance(t, ast.Subscript) and U(t.value) in rest:
                                    okr = False
                res.require(okn and okr, "R18.1", f"{name} skipped update returns NaN and {'a NaN pair' if mutation else 'the unchanged input parameters'}", f"failure path returns `{U(v)}`", repo.loc(f, s), U(v))
    # R18.2 -------------------------------------------------------------------------
    for kname in ("propagate_likelihood", "propagate_mutations"):
        f = repo.fn("variational", f"ExpectationPropagation.{kname}")
        disp = closure_dispatch(f)
        for clo, (phased, unph) in EXPECTED_DISPATCH[kname].items():
            got = disp.get(clo)
            ok = got is not None and got.get(False) == phased and got.get(True) == unph
            res.require(ok, "R18.2", f"variational.{kname} closure {clo} dispatches on `unphased`", f"dispatches to {got}; expected phased={phased}, unphased={unph}", repo.loc(f), f"{got}")
        loop, roles, gs = groups(f)
        par = next(k for k, v in roles.items() if v == "parent")
        chi = next(k for k, v in roles.items() if v == "child")
        seen = set()
        for g in gs:
            fp, fc = f"fixed[{par}]", f"fixed[{chi}]"
            prem = ("and", [formula(ast.parse(t, mode="eval").body, p) for t, p in g.conds])
            A, B, E = ("atom", fp), ("atom", fc), ("atom", f"{par} == {chi}")
            cands = {
                "both-fixed": ("and", [A, B]),
                "fixed-parent": ("and", [A, ("not", B)]),
                "fixed-child": ("and", [B, ("not", A)]),
                "twin": ("and", [("not", A), ("not", B), E]),
                "both-free": ("and", [("not", A), ("not", B), ("not", E)]),
            }
            key = None
            for k, fm in cands.items():
                if implies(prem, fm) and implies(fm, prem):
                    key = k
            if key is None:
                res.unres("R18.2", f"variational.{kname} branch {g.conds[-1] if g.conds else ''}", "branch condition not recognised", repo.loc(f, g.proj))
                continue
            seen.add(key)
            want_proj = {"both-fixed": "fixed_projection", "fixed-parent": "leafward_projection", "fixed-child": "rootward_projection", "twin": "twin_projection", "both-free": "gamma_projection"}[key]
            cons = f"variational.{kname} branch[{key}]"
            res.require(g.proj_name == want_proj, "R18.2", f"{cons} calls {want_proj}", f"calls {g.proj_name}", repo.loc(f, g.proj), g.proj_name)
            # fixed ages
            def age_of(e):
                v = g.defs.get(e.id) if isinstance(e, ast.Name) else e
                if isinstance(v, ast.Subscript) and U(v.value) == "constraints" and isinstance(v.slice, ast.Tuple):
                    return U(v.slice.elts[0]), U(v.slice.elts[1])
                return None

            def cavity_of(e):
                v = g.defs.get(e.id) if isinstance(e, ast.Name) else None
                if isinstance(v, ast.BinOp) and isinstance(v.op, ast.Sub) and isinstance(v.left, ast.Subscript) and U(v.left.value) == "posterior":
                    return U(v.left.slice)
                return None

            a = g.proj_args
            if key == "fixed-parent":
                ag = age_of(a[0])
                res.require(ag is not None and ag[0] == par and ag[1] in ("LOWER", "0"), "R18.2", f"{cons} conditions on the fixed parent's age", f"first argument is {U(g.defs.get(a[0].id, a[0])) if isinstance(a[0], ast.Name) else U(a[0])}", repo.loc(f, g.proj), str(ag))
                res.require(cavity_of(a[1]) == chi, "R18.2", f"{cons} updates the free child's cavity", f"cavity argument belongs to node `{cavity_of(a[1])}`", repo.loc(f, g.proj), f"cavity of {chi}")
            elif key == "fixed-child":
                ag = age_of(a[0])
                res.require(ag is not None and ag[0] == chi and ag[1] in ("LOWER", "0"), "R18.2", f"{cons} conditions on the fixed child's age", f"first argument is {U(g.defs.get(a[0].id, a[0])) if isinstance(a[0], ast.Name) else U(a[0])}", repo.loc(f, g.proj), str(ag))
                res.require(cavity_of(a[1]) == par, "R18.2", f"{cons} updates the free parent's cavity", f"cavity argument belongs to node `{cavity_of(a[1])}`", repo.loc(f, g.proj), f"cavity of {par}")
            elif key == "both-free":
                res.require(cavity_of(a[0]) == par and cavity_of(a[1]) == chi, "R18.2", f"{cons} passes (parent cavity, child cavity)", f"cavities of ({cavity_of(a[0])}, {cavity_of(a[1])})", repo.loc(f, g.proj), "(parent, child)")
            elif key == "twin":
                res.require(cavity_of(a[0]) == par, "R18.2", f"{cons} passes the single parent's cavity", f"cavity of {cavity_of(a[0])}", repo.loc(f, g.proj))
            elif key == "both-fixed":
                ap, ac = age_of(a[0]), age_of(a[1])
                res.require(ap is not None and ac is not None and ap[0] == par and ac[0] == chi, "R18.2", f"{cons} passes (parent age, child age)", f"ages of ({ap}, {ac})", repo.loc(f, g.proj), f"{ap}, {ac}")
        want_keys = {"fixed-parent", "fixed-child", "twin", "both-free"} | ({"both-fixed"} if kname == "propagate_mutations" else set())
        res.require(want_keys <= seen, "R18.2", f"variational.{kname} handles every fixed/free combination", f"missing branches {sorted(want_keys - seen)}", repo.loc(f), f"{sorted(seen)}")
        if kname == "propagate_likelihood":
            # both fixed -> skip
            ok = any(isinstance(s, ast.If) and U(s.test).replace(" ", "").replace("(", "").replace(")", "") == f"fixed[{par}]andfixed[{chi}]" and isinstance(s.body[0], ast.Continue) for s in loop.body)
            res.require(ok, "R18.2", "variational.propagate_likelihood skips edges with both ends fixed", "no `if fixed[p] and fixed[c]: continue`", repo.loc(f))


VARIANTS = [
    dict(name="gate-and-to-or", mod="approx", expect="fire", rule="R18.1", old="    if not (_valid_moments(mn_i, va_i) and _valid_moments(mn_j, va_j)):\n        return np.nan, pars_i, pars_j", new="    if not (_valid_moments(mn_i, va_i) or _valid_moments(mn_j, va_j)):\n        return np.nan, pars_i, pars_j"),
    dict(name="gate-or-to-and", mod="approx", expect="fire", rule="R18.1", old="    if not _valid_moments(mn_i, va_i) or not _valid_moments(mn_j, va_j):\n        return np.nan, pars_i, pars_j", new="    if not _valid_moments(mn_i, va_i) and not _valid_moments(mn_j, va_j):\n        return np.nan, pars_i, pars_j"),
    dict(name="gate-dropped", mod="approx", expect="fire", rule="R18.1", old="    logl, mn_j, va_j = sideways_moments(t_i, a_j, b_j, y_ij, mu_ij)\n\n    if not _valid_moments(mn_j, va_j):\n        return np.nan, pars_j\n", new="    logl, mn_j, va_j = sideways_moments(t_i, a_j, b_j, y_ij, mu_ij)\n"),
    dict(name="gate-wrong-pair", mod="approx", expect="fire", rule="R18.1", old="    logl, mn_i, va_i = twin_moments(a_i, b_i, y_ij, mu_ij)\n\n    if not _valid_moments(mn_i, va_i):", new="    logl, mn_i, va_i = twin_moments(a_i, b_i, y_ij, mu_ij)\n\n    if not _valid_moments(va_i, mn_i):"),
    dict(name="phase-gate-dropped", mod="approx", expect="fire", rule="R18.1", old="    pr_m, mn_m, va_m = mutation_twin_moments(a_i, b_i, y_ij, mu_ij)\n\n    if not _valid_moments(mn_m, va_m) or not (0 <= pr_m <= 1):", new="    pr_m, mn_m, va_m = mutation_twin_moments(a_i, b_i, y_ij, mu_ij)\n\n    if not _valid_moments(mn_m, va_m):"),
    dict(name="failure-returns-zeros", mod="approx", expect="fire", rule="R18.1", old="    if not _valid_moments(mn_i, va_i):\n        return np.nan, pars_i\n\n    proj_i = approximate_gamma_mom(mn_i, va_i)\n\n    return logl, np.array(proj_i)\n\n\n@numba_jit(_tuple((_f, _f1r, _f1r))(_f1r, _f1r, _f1r))\ndef unphased_projection", new="    if not _valid_moments(mn_i, va_i):\n        return np.nan, np.zeros(2)\n\n    proj_i = approximate_gamma_mom(mn_i, va_i)\n\n    return logl, np.array(proj_i)\n\n\n@numba_jit(_tuple((_f, _f1r, _f1r))(_f1r, _f1r, _f1r))\ndef unphased_projection"),
    dict(name="wrong-fixed-age", mod="variational", expect="fire", rule="R18.2", old="                edge_likelihood = child_delta * likelihoods[i]\n                parent_age = constraints[p, LOWER]\n                lognorm[i], posterior[c] = leafward_projection(", new="                edge_likelihood = child_delta * likelihoods[i]\n                parent_age = constraints[c, LOWER]\n                lognorm[i], posterior[c] = leafward_projection("),
    dict(name="rootward-for-fixed-parent", mod="variational", expect="fire", rule="R18.2", old="                lognorm[i], posterior[c] = leafward_projection(\n                    parent_age,", new="                lognorm[i], posterior[c] = rootward_projection(\n                    parent_age,"),
    dict(name="unphased-uses-phased-moments", mod="variational", expect="fire", rule="R18.2", old="        def gamma_projection(x, y, z):\n            if unphased:\n                return approx.unphased_projection(x, y, z)\n            return approx.gamma_projection(x, y, z)", new="        def gamma_projection(x, y, z):\n            if unphased:\n                return approx.gamma_projection(x, y, z)\n            return approx.gamma_projection(x, y, z)"),
    dict(name="cavities-swapped", mod="variational", expect="fire", rule="R18.2", old="                    lognorm[i], posterior[p], posterior[c] = gamma_projection(\n                        parent_cavity,\n                        child_cavity,", new="                    lognorm[i], posterior[p], posterior[c] = gamma_projection(\n                        child_cavity,\n                        parent_cavity,"),
    dict(name="twin-demorgan", mod="approx", expect="silent", old="    if not _valid_moments(mn_i, va_i) or not _valid_moments(mn_j, va_j):\n        return np.nan, pars_i, pars_j", new="    if not (_valid_moments(mn_i, va_i) and _valid_moments(mn_j, va_j)):\n        return np.nan, pars_i, pars_j"),
]
