"""C21 -- EP message bookkeeping: role consistency of every update group (R21.1/.2),
family completeness of the factor containers (R21.3), fixed nodes untouched (R21.4)."""

import ast

from ..base import AnalysisError, Defs, U, own_nodes, stmts
from ..paths import enum_paths
from .epgroups import groups

DIR = {"parent": "ROOTWARD", "child": "LEAFWARD"}


def node_updates(repo, f):
    """[(group, X, role, pieces dict or error string)] for every posterior[X] written by a projection"""
    loop, roles, gs = groups(f)
    out = []
    for g in gs:
        blk = g.block
        for tg in g.targets:
            if not (isinstance(tg, ast.Subscript) and U(tg.value) == "posterior"):
                continue
            X = U(tg.slice)
            if X not in roles:
                out.append((g, X, None, f"posterior[{X}]: {X} is not the parent/child node variable"))
                continue
            D = DIR[roles[X]]
            pcs = {"X": X, "D": D}
            msg = [s for s in blk if isinstance(s, ast.Assign) and isinstance(s.value, ast.BinOp) and isinstance(s.value.op, ast.Mult) and U(s.value.right) == f"scale[{X}]" and U(s.value.left).replace(" ", "").startswith("factor[i,")]
            if len(msg) != 1:
                out.append((g, X, roles[X], f"{len(msg)} message statements `factor[i, D] * scale[{X}]`"))
                continue
            pcs["msg"] = msg[0]
            pcs["msg_dir"] = U(msg[0].value.left.slice.elts[1])
            M = U(msg[0].targets[0])
            cav = [s for s in blk if isinstance(s, ast.Assign) and isinstance(s.value, ast.BinOp) and isinstance(s.value.op, ast.Sub) and U(s.value.left) == f"posterior[{X}]" and isinstance(s.value.right, ast.BinOp) and isinstance(s.value.right.op, ast.Mult) and M in (U(s.value.right.right), U(s.value.right.left))]
            if len(cav) != 1:
                out.append((g, X, roles[X], f"{len(cav)} cavity statements `posterior[{X}] - delta * {M}`"))
                continue
            pcs["cav"] = cav[0]
            C = U(cav[0].targets[0])
            r = cav[0].value.right
            delta = U(r.left) if U(r.right) == M else U(r.right)
            pcs["delta"] = delta
            pcs["C"] = C
            pcs["lik"] = [s for s in blk if isinstance(s, ast.Assign) and isinstance(s.value, ast.BinOp) and isinstance(s.value.op, ast.Mult) and "likelihoods[i]" in (U(s.value.left), U(s.value.right))]
            pcs["decay"] = [s for s in blk if isinstance(s, ast.AugAssign) and isinstance(s.op, ast.Mult) and U(s.target).replace(" ", "").startswith("factor[i,") and isinstance(s.value, ast.BinOp) and isinstance(s.value.op, ast.Sub) and U(s.value.left) in ("1.0", "1")]
            pcs["incr"] = [s for s in blk if isinstance(s, ast.AugAssign) and isinstance(s.op, ast.Add) and U(s.target).replace(" ", "").startswith("factor[i,") and f"posterior[{X}]" in U(s.value)]
            pcs["eta"] = [s for s in blk if isinstance(s, ast.Assign) and isinstance(s.value, ast.Call) and U(s.value.func) == "posterior_damping" and U(s.value.args[0]) == f"posterior[{X}]"]
            out.append((g, X, roles[X], pcs))
    return loop, roles, out


def run(repo, res):
    res.rule("R21.1", "each node update group of propagate_likelihood (message, damping, cavity, scaled likelihood, projection, factor decay, factor increment, cap) uses one node variable and one direction: ROOTWARD iff the node is the edge's parent, LEAFWARD iff its child; the same delta scales message, likelihood and decay; the increment subtracts the cavity of the same node; the cap multiplies posterior[X] and scale[X] by the same eta; in this order")
    res.rule("R21.2", "propagate_prior: cavity = posterior - factor[:, MIXPRIOR] * scale, new factor = (posterior - cavity) / scale on the free mask, cap on each free node")
    res.rule("R21.3", "_rescale_factors multiplies every 3-D field of EPFactors, once per direction column, by scale indexed through the node map _assemble_factors uses for that column, then resets scale; EPFactors is constructed with (parents, children, block parents 0, block parents 1) and iterate passes block_nodes[ROOTWARD]/[LEAFWARD] in the same roles")
    res.rule("R21.4", "every store to posterior[X], scale[X], factor[i, dir(X)] is control-dependent on `not fixed[X]`; propagate_prior's mask excludes fixed nodes; iterate ends with _rescale_factors on every path")
    f = repo.fn("variational", "ExpectationPropagation.propagate_likelihood")
    loop, roles, ups = node_updates(repo, f)
    res.floor("likelihood_update_groups", len(ups), 5)
    for g, X, role, pcs in ups:
        br = " / ".join(("" if p else "not ") + t for t, p in g.conds[-2:])
        cons = f"variational.propagate_likelihood update of posterior[{X}] in branch[{br}]"
        loc = repo.loc(f, g.proj)
        if isinstance(pcs, str):
            res.bad("R21.1", cons, pcs, loc)
            continue
        D, C, delta = pcs["D"], pcs["C"], pcs["delta"]
        probs = []
        if pcs["msg_dir"] != D:
            probs.append(f"message reads factor[i, {pcs['msg_dir']}] but {X} is the edge's {role} (direction {D})")
        # delta is the damping of this node, or the min over both nodes
        dd = g.defs.get(delta)
        ok_delta = False
        if isinstance(dd, ast.Call) and U(dd.func) == "cavity_damping":
            ok_delta = U(dd.args[0]) == f"posterior[{X}]" and U(dd.args[1]) == U(pcs["msg"].targets[0])
        elif isinstance(dd, ast.Call) and U(dd.func) == "min":
            parts = [g.defs.get(U(a)) for a in dd.args]
            ok_delta = all(isinstance(p, ast.Call) and U(p.func) == "cavity_damping" for p in parts) and any(U(p.args[0]) == f"posterior[{X}]" and U(p.args[1]) == U(pcs["msg"].targets[0]) for p in parts)
        if not ok_delta:
            probs.append(f"step size `{delta}` is not the damping of posterior[{X}] against its own message")
        if len(pcs["lik"]) != 1 or delta not in (U(pcs["lik"][0].value.left), U(pcs["lik"][0].value.right)):
            probs.append(f"the likelihood is not scaled by the same step `{delta}`")
        args = [U(a) for a in g.proj_args]
        if C not in args:
            probs.append(f"cavity `{C}` is not passed to the projection")
        if pcs["lik"] and U(pcs["lik"][0].targets[0]) not in args:
            probs.append("scaled likelihood is not passed to the projection")
        dec = [s for s in pcs["decay"] if U(s.target).replace(" ", "") == f"factor[i,{D}]"]
        if len(dec) != 1:
            probs.append(f"{len(dec)} decay statements on factor[i, {D}]")
        elif U(dec[0].value.right) != delta:
            probs.append(f"decay uses `{U(dec[0].value.right)}`, not `{delta}`")
        inc = [s for s in pcs["incr"] if U(s.target).replace(" ", "") == f"factor[i,{D}]"]
        want_inc = f"(posterior[{X}] - {C}) / scale[{X}]"
        if len(inc) != 1:
            probs.append(f"{len(inc)} increments on factor[i, {D}] from posterior[{X}]")
        elif U(inc[0].value) != want_inc:
            probs.append(f"increment is `{U(inc[0].value)}`, expected `{want_inc}`")
        caps = []
        if len(pcs["eta"]) != 1:
            probs.append(f"{len(pcs['eta'])} cap computations for posterior[{X}]")
        else:
            E = U(pcs["eta"][0].targets[0])
            caps = [s for s in g.block if isinstance(s, ast.AugAssign) and isinstance(s.op, ast.Mult) and U(s.value) == E]
            tg = sorted(U(s.target) for s in caps)
            if tg != sorted([f"posterior[{X}]", f"scale[{X}]"]):
                probs.append(f"cap `{E}` multiplies {tg}, expected posterior[{X}] and scale[{X}]")
        if not probs:
            order = [pcs["msg"].lineno, pcs["cav"].lineno, g.proj.lineno, dec[0].lineno, inc[0].lineno, pcs["eta"][0].lineno] + sorted(s.lineno for s in caps)
            if order != sorted(order):
                probs.append("statements of the group are not in the order message < cavity < projection < decay < increment < cap")
        res.require(not probs, "R21.1", cons, "; ".join(probs), loc, f"direction {D}, step {delta}, cavity {C}")
        # R21.4 guards: the branch condition implies not fixed[X]
        from ..base import formula, implies

        prem = ("and", [formula(ast.parse(t, mode="eval").body, p) for t, p in g.conds])
        ok = implies(prem, ("not", ("atom", f"fixed[{X}]")))
        res.require(ok, "R21.4", f"variational.propagate_likelihood stores to posterior/scale/factor of {X} only when it is not fixed (branch[{br}])", f"the branch condition does not imply `not fixed[{X}]`: a sample node's posterior would be changed", loc)
    # every store to posterior/scale/factor in the loop belongs to a recognised group
    grp_stmts = set()
    for g, X, role, pcs in ups:
        grp_stmts |= {id(s) for s in g.block}
    for s, gd in stmts(f):
        if isinstance(s, (ast.Assign, ast.AugAssign)):
            for t in s.targets if isinstance(s, ast.Assign) else [s.target]:
                for el in t.elts if isinstance(t, ast.Tuple) else [t]:
                    if isinstance(el, ast.Subscript) and U(el.value) in ("posterior", "scale", "factor") and id(s) not in grp_stmts:
                        res.bad("R21.1", f"variational.propagate_likelihood stray store `{U(el)}`", "a store to the posterior / scale / factor outside any recognised update group", repo.loc(f, s))
    r212(repo, res)
    r213(repo, res)
    r214(repo, res)


def r212(repo, res):
    f = repo.fn("variational", "ExpectationPropagation.propagate_prior")
    d = Defs(f)
    cav = d.single("cavity")
    okc = cav is not None and U(cav).replace(" ", "") == "posterior-factor[:,MIXPRIOR]*scale[:,np.newaxis]"
    res.require(okc, "R21.2", "variational.propagate_prior cavity = posterior - factor[:, MIXPRIOR] * scale", f"cavity is `{U(cav)}`", repo.loc(f), U(cav))
    st = [s for s, g in stmts(f) if isinstance(s, ast.Assign) and isinstance(s.targets[0], ast.Subscript) and U(s.targets[0].value) == "factor"]
    okf = len(st) == 1 and U(st[0].targets[0]).replace(" ", "") == "factor[free,MIXPRIOR]" and U(st[0].value).replace(" ", "") == "(posterior[free]-cavity[free])/scale[free,np.newaxis]"
    res.require(okf, "R21.2", "variational.propagate_prior new factor = (posterior - cavity) / scale on the free mask", f"factor store is `{U(st[0]) if st else None}`", repo.loc(f, st[0]) if st else repo.loc(f))
    ps = [s for s, g in stmts(f) if isinstance(s, ast.Assign) and isinstance(s.targets[0], ast.Subscript) and U(s.targets[0].value) == "posterior"]
    okp = len(ps) == 1 and U(ps[0].targets[0]).replace(" ", "") == "posterior[free,1]" and U(ps[0].value).replace(" ", "") == "cavity[free,1]+penalty" and ps[0].lineno < st[0].lineno
    res.require(okp, "R21.2", "variational.propagate_prior posterior rate = cavity rate + penalty, before the factor is recomputed", f"`{U(ps[0]) if ps else None}`", repo.loc(f))
    loops = [s for s in f.body if isinstance(s, ast.For)]
    okl = False
    if loops:
        lp = loops[-1]
        body = [U(x).replace(" ", "") for x in lp.body]
        i = U(lp.target)
        okl = U(lp.iter).replace(" ", "") == "np.flatnonzero(free)" and body == [f"eta=posterior_damping(posterior[{i}])", f"posterior[{i}]*=eta", f"scale[{i}]*=eta"] and lp.lineno > st[0].lineno
    res.require(okl, "R21.2", "variational.propagate_prior caps every free node after the update", "cap loop over np.flatnonzero(free) not found after the factor update", repo.loc(f))


def r213(repo, res):
    rf = repo.fn("variational", "_rescale_factors")
    af = repo.fn("variational", "_assemble_factors")
    m = repo.mods["variational"]
    spec = m.consts.get("_EPFactors")
    if not isinstance(spec, ast.List):
        raise AnalysisError("R21.3: _EPFactors spec not found")
    fields3 = [e.elts[0].value for e in spec.elts if U(e.elts[1]).startswith("_f3")]
    # node map used by _assemble_factors: (field, direction) -> map attribute
    amap = {}
    for lp in [s for s in af.body if isinstance(s, ast.For)]:
        it = lp.iter
        if isinstance(it, ast.Call) and U(it.func) == "enumerate" and isinstance(it.args[0], ast.Call) and U(it.args[0].func) == "zip":
            maps = [U(a).split(".")[-1] for a in it.args[0].args]
            vars_ = [U(x) for x in lp.target.elts[1].elts]
            for s in lp.body:
                if isinstance(s, ast.AugAssign) and isinstance(s.target, ast.Subscript) and U(s.target.value) == "posterior":
                    node = U(s.target.slice)
                    fld = s.value.value.attr
                    dr = U(s.value.slice.elts[1])
                    amap[(fld, dr)] = maps[vars_.index(node)]
    for s in af.body:
        if isinstance(s, ast.AugAssign) and U(s.target) == "posterior" and isinstance(s.value, ast.Subscript):
            amap[(s.value.value.attr, U(s.value.slice.elts[1]))] = ":"
    rmap = {}
    reset = None
    for s in rf.body:
        if isinstance(s, ast.AugAssign) and isinstance(s.op, ast.Mult) and isinstance(s.target, ast.Subscript):
            fld = s.target.value.attr
            dr = U(s.target.slice.elts[1])
            idx = s.value.slice.elts[0]
            key = (fld, dr)
            if key in rmap:
                res.bad("R21.3", f"variational._rescale_factors factors.{fld}[:, {dr}] is rescaled once", "rescaled twice: the message is multiplied by scale**2", repo.loc(rf, s))
            rmap[key] = ":" if isinstance(idx, ast.Slice) else U(idx).split(".")[-1]
        if isinstance(s, ast.Assign) and U(s.targets[0]).replace(" ", "") == "factors.scale[:]":
            reset = s
    want = {(fld, dr) for fld in fields3 for dr in ("0", "1")}
    names = {"ROOTWARD": "0", "LEAFWARD": "1", "MIXPRIOR": "0", "CONSTRNT": "1", "NODEONE": "0", "NODETWO": "1"}
    norm = lambda d_: {(k[0], names.get(k[1], k[1])): v for k, v in d_.items()}  # noqa: E731
    rmapn, amapn = norm(rmap), norm(amap)
    for key in sorted(want):
        cons = f"variational._rescale_factors factors.{key[0]}[:, {key[1]}]"
        if key not in rmapn:
            res.bad("R21.3", cons + " is rescaled", "this message column is never multiplied by the node scale: after `scale[:] = 1` the posterior no longer equals the sum of its messages", repo.loc(rf))
        elif key not in amapn:
            res.bad("R21.3", cons + " is assembled", "this column is rescaled but _assemble_factors never adds it to a node", repo.loc(af))
        else:
            res.require(rmapn[key] == amapn[key], "R21.3", cons + " uses the node map of _assemble_factors", f"rescaled by scale[{rmapn[key]}] but added to node {amapn[key]}", repo.loc(rf), f"node map {amapn[key]}")
    res.require(reset is not None and U(reset.value) in ("1.0", "1") and reset.lineno == max(s.lineno for s in rf.body), "R21.3", "variational._rescale_factors resets scale to 1 after rescaling every column", "scale is not reset last", repo.loc(rf))
    # construction / call roles
    init = repo.fn("variational", "ExpectationPropagation.__init__")
    ctor = [n for n in own_nodes(init) if isinstance(n, ast.Call) and U(n.func) == "EPFactors"]
    okc = len(ctor) == 1 and [U(a) for a in ctor[0].args] == ["self.node_constraints", "self.edge_parents", "self.edge_children", "self.block_nodes[0]", "self.block_nodes[1]"]
    res.require(okc, "R21.3", "variational.ExpectationPropagation.__init__ builds EPFactors(parents, children, block node 0, block node 1)", f"EPFactors({[U(a) for a in ctor[0].args] if ctor else None})", repo.loc(init))
    fi = repo.fn("variational", "EPFactors.__init__")
    binds = {}
    for s in fi.body:
        if isinstance(s, ast.Assign) and isinstance(s.targets[0], ast.Tuple):
            for t, v in zip(s.targets[0].elts, s.value.elts):
                binds[U(t)] = U(v)
    pn = [a.arg for a in fi.args.args][1:]
    okb = binds.get("self._p") == pn[1] and binds.get("self._c") == pn[2] and binds.get("self._j") == pn[3] and binds.get("self._k") == pn[4]
    res.require(okb, "R21.3", "variational.EPFactors.__init__ binds _p,_c,_j,_k to (parents, children, block left, block right)", f"{binds}", repo.loc(fi))
    it = repo.fn("variational", "ExpectationPropagation.iterate")
    calls = [n for n in own_nodes(it) if isinstance(n, ast.Call) and U(n.func) == "self.propagate_likelihood"]
    blk = [c for c in calls if U(c.args[0]) == "self.block_order"]
    okk = len(blk) == 1 and U(blk[0].args[1]).replace(" ", "") in ("self.block_nodes[ROOTWARD]", "self.block_nodes[0]") and U(blk[0].args[2]).replace(" ", "") in ("self.block_nodes[LEAFWARD]", "self.block_nodes[1]")
    res.require(okk, "R21.3", "variational.ExpectationPropagation.iterate passes block_nodes[ROOTWARD], block_nodes[LEAFWARD] as parent/child arrays", "block node arrays passed in other roles than EPFactors._j/_k", repo.loc(it))
    edg = [c for c in calls if U(c.args[0]) == "self.edge_order"]
    oke = len(edg) == 1 and U(edg[0].args[1]) == "self.edge_parents" and U(edg[0].args[2]) == "self.edge_children"
    res.require(oke, "R21.3", "variational.ExpectationPropagation.iterate passes edge_parents, edge_children as parent/child arrays", "edge node arrays passed in other roles than EPFactors._p/_c", repo.loc(it))


def r214(repo, res):
    it = repo.fn("variational", "ExpectationPropagation.iterate")
    paths = [p for p in enum_paths(it) if p.exit in ("fall", "return")]
    for p in paths:
        calls = [U(c.func) for c in p.calls()]
        conds = " and ".join(("" if e[2] else "not ") + U(e[1]) for e in p.conds()) or "always"
        writers = [i for i, c in enumerate(calls) if c in ("self.propagate_likelihood", "self.propagate_prior")]
        resc = [i for i, c in enumerate(calls) if c == "_rescale_factors"]
        ok = bool(resc) and (not writers or max(resc) > max(writers))
        res.require(ok, "R21.4", f"variational.ExpectationPropagation.iterate path[{conds}] ends with _rescale_factors", "messages are not renormalised after the last update on this path", repo.loc(it))
    init = repo.fn("variational", "ExpectationPropagation.__init__")
    clear = [s for s, g in stmts(init) if isinstance(s, ast.Assign) and U(s.targets[0]).replace(" ", "") == "self.unconstrained_roots[fixed_nodes]" and U(s.value) == "False"]
    res.require(len(clear) == 1, "R21.4", "variational.ExpectationPropagation.__init__ clears fixed nodes from unconstrained_roots", "`self.unconstrained_roots[fixed_nodes] = False` missing", repo.loc(init))
    pc = [n for n in own_nodes(it) if isinstance(n, ast.Call) and U(n.func) == "self.propagate_prior"]
    res.require(len(pc) == 1 and U(pc[0].args[0]) == "self.unconstrained_roots", "R21.4", "variational.ExpectationPropagation.iterate applies the prior to unconstrained roots only", f"mask is `{U(pc[0].args[0]) if pc else None}`", repo.loc(it))


_G = "                    factor[i, ROOTWARD] *= 1.0 - delta\n                    factor[i, ROOTWARD] += (posterior[p] - parent_cavity) / scale[p]\n                    factor[i, LEAFWARD] *= 1.0 - delta\n                    factor[i, LEAFWARD] += (posterior[c] - child_cavity) / scale[c]\n"
VARIANTS = [
    dict(name="decay-dropped", mod="variational", expect="fire", rule="R21.1", old=_G, new=_G.replace("                    factor[i, LEAFWARD] *= 1.0 - delta\n", "")),
    dict(name="direction-swapped", mod="variational", expect="fire", rule="R21.1", old=_G, new=_G.replace("factor[i, LEAFWARD] += (posterior[c] - child_cavity) / scale[c]", "factor[i, ROOTWARD] += (posterior[c] - child_cavity) / scale[c]")),
    dict(name="wrong-cavity-subtracted", mod="variational", expect="fire", rule="R21.1", old=_G, new=_G.replace("(posterior[c] - child_cavity) / scale[c]", "(posterior[c] - parent_cavity) / scale[c]")),
    dict(name="wrong-scale", mod="variational", expect="fire", rule="R21.1", old=_G, new=_G.replace("(posterior[c] - child_cavity) / scale[c]", "(posterior[c] - child_cavity) / scale[p]")),
    dict(name="different-delta-in-decay", mod="variational", expect="fire", rule="R21.1", old=_G, new=_G.replace("factor[i, ROOTWARD] *= 1.0 - delta", "factor[i, ROOTWARD] *= 1.0 - parent_delta")),
    dict(name="likelihood-unscaled", mod="variational", expect="fire", rule="R21.1", old="                    edge_likelihood = delta * likelihoods[i]\n\n                    # match moments and update factors", new="                    edge_likelihood = 1.0 * likelihoods[i]\n\n                    # match moments and update factors"),
    dict(name="cap-on-other-node", mod="variational", expect="fire", rule="R21.1", old="                    posterior[p] *= parent_eta\n                    posterior[c] *= child_eta\n                    scale[p] *= parent_eta\n                    scale[c] *= child_eta", new="                    posterior[p] *= parent_eta\n                    posterior[c] *= child_eta\n                    scale[p] *= parent_eta\n                    scale[p] *= child_eta"),
    dict(name="message-wrong-direction", mod="variational", expect="fire", rule="R21.1", old="                child_message = factor[i, LEAFWARD] * scale[c]\n                child_delta = cavity_damping(posterior[c], child_message)", new="                child_message = factor[i, ROOTWARD] * scale[c]\n                child_delta = cavity_damping(posterior[c], child_message)"),
    dict(name="twin-redundant-guard-dropped", mod="variational", expect="silent", old="            elif fixed[p] and not fixed[c]:\n                # in practice this should only occur if a sample is the", new="            elif fixed[p]:\n                # in practice this should only occur if a sample is the"),
    dict(name="both-fixed-skip-dropped", mod="variational", expect="fire", rule="R21.4", old="            if fixed[p] and fixed[c]:\n                continue\n            elif fixed[p] and not fixed[c]:\n                # in practice this should only occur if a sample is the", new="            if fixed[p] and not fixed[c]:\n                # in practice this should only occur if a sample is the"),
    dict(name="rescale-misses-block-column", mod="variational", expect="fire", rule="R21.3", old="    factors.block[:, LEAFWARD] *= factors.scale[factors._k, np.newaxis]\n", new=""),
    dict(name="rescale-wrong-map", mod="variational", expect="fire", rule="R21.3", old="    factors.edge[:, LEAFWARD] *= factors.scale[factors._c, np.newaxis]", new="    factors.edge[:, LEAFWARD] *= factors.scale[factors._p, np.newaxis]"),
    dict(name="block-roles-swapped", mod="variational", expect="fire", rule="R21.3", old="            self.block_order,\n            self.block_nodes[ROOTWARD],\n            self.block_nodes[LEAFWARD],\n            self.block_likelihoods,\n            self.node_constraints,\n            self.node_posterior,\n            self.factors,\n            self.block_logconst,", new="            self.block_order,\n            self.block_nodes[LEAFWARD],\n            self.block_nodes[ROOTWARD],\n            self.block_likelihoods,\n            self.node_constraints,\n            self.node_posterior,\n            self.factors,\n            self.block_logconst,"),
    dict(name="no-final-rescale", mod="variational", expect="fire", rule="R21.4", old="        logger.debug(\"Absorbing scaling term into the factors\")\n        _rescale_factors(self.factors)\n", new="        logger.debug(\"Absorbing scaling term into the factors\")\n"),
    dict(name="prior-factor-wrong-scale", mod="variational", expect="fire", rule="R21.2", old="            (posterior[free] - cavity[free]) / scale[free, np.newaxis]  # fmt: skip", new="            (posterior[free] - cavity[free]) * scale[free, np.newaxis]  # fmt: skip"),
    dict(name="prior-on-all-roots", mod="variational", expect="fire", rule="R21.4", old="        self.unconstrained_roots[fixed_nodes] = False\n", new=""),
    dict(name="twin-reorder-independent", mod="variational", expect="silent", old="                    posterior[p] *= parent_eta\n                    posterior[c] *= child_eta\n                    scale[p] *= parent_eta\n                    scale[c] *= child_eta", new="                    posterior[p] *= parent_eta\n                    scale[p] *= parent_eta\n                    posterior[c] *= child_eta\n                    scale[c] *= child_eta"),
]
