"""C22 -- unphased singleton handling only re-phases singletons (structural clauses)."""

import ast

from ..base import AnalysisError, Defs, U, bool_guards, own_nodes, stmts, bind_args


def run(repo, res):
    res.rule("R22.1", "the only stores to mutation_nodes / mutation_edges are masked by mutation_blocks != NULL; the stored node is edge_children[e] with e chosen from the two edges of the mutation's own block; _block_singletons fills a block's two edges only from edges whose child belongs to the same unphased individual")
    res.rule("R22.2", "singletons_phased flows unchanged from the API to np.full(num_individuals, singletons_phased) and, negated, to block_singletons; block_singletons rejects non-diploid / non-contemporary individuals only under the mask")
    from ..paths import enum_paths
    from .common import borrow

    borrow(repo, res, "c23", "R23.3", "R22.3", "(= R23.3) rescaling reallocates the singleton counts of the very table its kernel reads, so the result never depends on which of an individual's two nodes carried the singleton in the input")
    res.rule("R22.4", "every path through infer() re-places the unphased singletons (stores to mutation_edges and mutation_nodes under the block mask), whatever the rescaling options: the reported mutation nodes never keep the input's arbitrary phase")
    inf = repo.fn("variational", "ExpectationPropagation.infer")
    paths = [p for p in enum_paths(inf) if p.exit in ("fall", "return")]
    if not paths:
        raise AnalysisError("R22.4: no completing path through ExpectationPropagation.infer")
    for p in paths:
        conds = " and ".join(("" if e[2] else "not ") + U(e[1]) for e in p.conds() if "rescale" in U(e[1])) or "always"
        placed = {U(t.value) for st in p.stmts() if isinstance(st, ast.Assign) for t in st.targets if isinstance(t, ast.Subscript) and U(t.value) in ("self.mutation_nodes", "self.mutation_edges")}
        res.require(placed == {"self.mutation_nodes", "self.mutation_edges"}, "R22.4", f"variational.ExpectationPropagation.infer path[{conds}] places every unphased singleton", f"stores on this path: {sorted(placed) or 'none'}: with these options singletons stay on the node the input happened to put them on", repo.loc(inf), "mutation_edges and mutation_nodes rewritten")
    d = Defs(inf)
    n = 0
    for s, g in stmts(inf):
        if isinstance(s, ast.Assign) and isinstance(s.targets[0], ast.Subscript) and U(s.targets[0].value) in ("self.mutation_nodes", "self.mutation_edges"):
            n += 1
            tgt = U(s.targets[0].value)
            mo = d.origins(s.targets[0].slice)
            res.require(mo == {"self.mutation_blocks != tskit.NULL"}, "R22.1", f"variational.ExpectationPropagation.infer store to {tgt} is masked by blocks != NULL", f"mask originates from {sorted(mo)}", repo.loc(inf, s), f"{sorted(mo)}")
            if tgt == "self.mutation_edges":
                vo = d.inline(s.value)
                ok = isinstance(vo, ast.Call) and U(vo.func) == "np.where" and len(vo.args) == 3
                if ok:
                    cols = []
                    for a in vo.args[1:]:
                        good = isinstance(a, ast.Subscript) and U(a.value) == "self.block_edges" and isinstance(a.slice, ast.Tuple) and len(a.slice.elts) == 2
                        good = good and U(a.slice.elts[0]).replace(" ", "") == "self.mutation_blocks[self.mutation_blocks!=tskit.NULL]"
                        cols.append(U(a.slice.elts[1]) if good else None)
                    ok = cols == ["1", "0"]
                res.require(ok, "R22.1", "variational.ExpectationPropagation.infer new edge is one of the two edges of the mutation's own block", f"value is `{U(vo)[:120]}`", repo.loc(inf, s), "np.where(phase < .5, block_edges[own block, 1], block_edges[own block, 0])")
            else:
                v = s.value
                ok = isinstance(v, ast.Subscript) and U(v.value) == "self.edge_children"
                eo = d.origins(v.slice) if ok else set()
                ok = ok and all(x.startswith("np.where(") for x in eo)
                res.require(ok, "R22.1", "variational.ExpectationPropagation.infer new node is the child of the chosen block edge", f"value `{U(v)}` (index origins {sorted(eo)})", repo.loc(inf, s), U(v))
    if n == 0:
        raise AnalysisError("R22.1: no masked store to mutation_edges / mutation_nodes found in infer (anchor vanished)")
    res.require(n == 2, "R22.1", "variational.ExpectationPropagation.infer rewrites mutation_edges and mutation_nodes only under the unphased-singleton mask", f"{n} masked store(s) found instead of the pair (mutation_edges, mutation_nodes): one of the two arrays is rewritten some other way (wholesale) or not at all", repo.loc(inf))
    # a wholesale rebinding of either array in infer
    for s_, g_ in stmts(inf):
        if isinstance(s_, ast.Assign) and any(U(t_) in ("self.mutation_nodes", "self.mutation_edges") for t_ in s_.targets):
            res.bad("R22.1", f"variational.ExpectationPropagation.infer rebinds `{U(s_.targets[0])}`", f"`{U(s_)[:90]}` rewrites the placement of every mutation, not only of unphased singletons (mutations above a root have edge NULL, which numpy wraps to the last edge)", repo.loc(inf, s_))
    # other methods do not write these arrays (except the constructor)
    for q, f in repo.mods["variational"].funcs.items():
        if q.startswith("ExpectationPropagation.") and q.count(".") == 1 and f is not inf:
            for s, g in stmts(f):
                if isinstance(s, (ast.Assign, ast.AugAssign)):
                    for t in s.targets if isinstance(s, ast.Assign) else [s.target]:
                        base = t.value if isinstance(t, ast.Subscript) else t
                        if U(base) in ("self.mutation_nodes", "self.mutation_edges") and f.name != "__init__":
                            res.bad("R22.1", f"variational.{q} writes {U(base)}", f"`{U(s)[:80]}`: only infer() may re-place singletons", repo.loc(f, s))
    # _block_singletons: individuals_edges updates guarded by the unphased test on the edge child's individual
    k = repo.fn("phasing", "_block_singletons")
    nk = 0
    for s, g in stmts(k):
        tg = [t for t in (s.targets if isinstance(s, ast.Assign) else [getattr(s, "target", None)]) if t is not None] if isinstance(s, (ast.Assign, ast.AugAssign)) else []
        for t in tg:
            if isinstance(t, ast.Subscript) and U(t.value) in ("individuals_edges", "individuals_block", "individuals_singletons", "individuals_position", "mutations_block"):
                nk += 1
                conds = [U(e).replace(" ", "") for e, pol in bool_guards(g) if pol]
                ok = any("individuals_unphased[i]" in c and "i!=tskit.NULL" in c for c in conds)
                res.require(ok, "R22.1", f"phasing._block_singletons update of {U(t.value)} is restricted to unphased individuals", f"`{U(s)[:70]}` is not under `i != tskit.NULL and individuals_unphased[i]`", repo.loc(k, s))
    res.floor("block_singletons_guarded_updates", nk, 8)
    kd = Defs(k)
    for nme in ("i",):
        o = kd.origins(ast.Name(id=nme, ctx=ast.Load()))
        res.require(o == {"nodes_individual[c]"}, "R22.1", "phasing._block_singletons individual is that of the edge's / mutation's own node", f"`i` originates from {sorted(o)}", repo.loc(k))
    co = kd.origins(ast.Name(id="c", ctx=ast.Load()))
    res.require(co <= {"edges_child[e]", "mutations_node[m]"} and bool(co), "R22.1", "phasing._block_singletons node is the edge child / mutation node", f"`c` originates from {sorted(co)}", repo.loc(k))
    # R22.2 wiring
    chain = [
        ("core", "variational_gamma", "run", "singletons_phased"),
        ("core", "VariationalGammaMethod.run", "ExpectationPropagation", "singletons_phased"),
    ]
    for mod, q, callee, kw in chain:
        f = repo.fn(mod, q)
        dd = Defs(f)
        hit = False
        for c in own_nodes(f):
            if isinstance(c, ast.Call) and U(c.func).endswith(callee):
                for kk in c.keywords:
                    if kk.arg == kw:
                        o = dd.origins(kk.value)
                        hit = True
                        ok = "<param singletons_phased>" in o and o <= {"<param singletons_phased>", "True"}
                        res.require(ok, "R22.2", f"{mod}.{q} forwards singletons_phased", f"origins {sorted(o)}", repo.loc(f, c), f"{sorted(o)}")
        if not hit:
            res.bad("R22.2", f"{mod}.{q} forwards singletons_phased", "keyword not passed", repo.loc(f))
    init = repo.fn("variational", "ExpectationPropagation.__init__")
    di = Defs(init)
    calls = [c for c in own_nodes(init) if isinstance(c, ast.Call) and U(c.func) == "block_singletons"]
    if len(calls) != 1:
        raise AnalysisError("R22.2: block_singletons call not found")
    m = calls[0].args[1]
    ok = isinstance(m, ast.UnaryOp) and isinstance(m.op, ast.Invert) and di.origins(m.operand) == {"np.full(ts.num_individuals, singletons_phased)"}
    res.require(ok, "R22.2", "variational.ExpectationPropagation.__init__ unphased mask is the negated phased flag", f"mask `{U(m)}`", repo.loc(init, calls[0]), U(m))
    bs = repo.fn("phasing", "block_singletons")
    for s, g in stmts(bs):
        if isinstance(s, ast.Raise):
            conds = [U(e).replace(" ", "") for e, pol in bool_guards(g) if pol]
            res.require(any("individuals_unphased[i.id]" in c for c in conds), "R22.2", f"phasing.block_singletons rejects `{U(s.exc)[:50]}` only for unphased individuals", "the check is not under the mask", repo.loc(bs, s))


VARIANTS = [
    dict(name="reallocate-other-table", mod="variational", expect="fire", rule="R22.3", old="        reallocate_unphased(  # correct mutation counts for unphased singletons\n            likelihoods,", new="        reallocate_unphased(  # correct mutation counts for unphased singletons\n            self.sizebiased_likelihoods,"),
    dict(name="placement-only-when-rescaling", mod="variational", expect="fire", rule="R22.4", old="        self.mutation_edges[singletons] = switched_edges\n        self.mutation_nodes[singletons] = self.edge_children[switched_edges]\n\n        if rescale_intervals > 0 and rescale_iterations > 0:\n", new="        if rescale_intervals > 0 and rescale_iterations > 0:\n            self.mutation_edges[singletons] = switched_edges\n            self.mutation_nodes[singletons] = self.edge_children[switched_edges]\n"),
    dict(name="all-mutations-rephased", mod="variational", expect="fire", rule="R22.1", old="        singletons = self.mutation_blocks != tskit.NULL\n", new="        singletons = self.mutation_blocks != -2\n"),
    dict(name="node-not-child-of-edge", mod="variational", expect="fire", rule="R22.1", old="        self.mutation_nodes[singletons] = self.edge_children[switched_edges]", new="        self.mutation_nodes[singletons] = self.edge_parents[switched_edges]"),
    dict(name="edge-from-other-block", mod="variational", expect="fire", rule="R22.1", old="            self.block_edges[switched_blocks, 1],\n            self.block_edges[switched_blocks, 0],", new="            self.block_edges[switched_blocks - 1, 1],\n            self.block_edges[switched_blocks, 0],"),
    dict(name="phased-individual-blocked", mod="phasing", expect="fire", rule="R22.1", old="            if i != tskit.NULL and individuals_unphased[i]:\n                u, v = individuals_edges[i]\n                assert u == tskit.NULL or v == tskit.NULL", new="            if i != tskit.NULL:\n                u, v = individuals_edges[i]\n                assert u == tskit.NULL or v == tskit.NULL"),
    dict(name="flag-inverted", mod="variational", expect="fire", rule="R22.2", old="            block_singletons(ts, ~individual_phased)  # fmt: skip", new="            block_singletons(ts, individual_phased)  # fmt: skip"),
    dict(name="flag-dropped-in-run", mod="core", expect="fire", rule="R22.2", old="            singletons_phased=singletons_phased,\n        )\n        fit_obj.infer(", new="            singletons_phased=True,\n        )\n        fit_obj.infer("),
    dict(name="diploid-check-unmasked", mod="phasing", expect="fire", rule="R22.2", old="        if individuals_unphased[i.id]:\n            if i.nodes.size != 2:", new="        if True:\n            if i.nodes.size != 2:"),
    dict(name="twin-rename-mask", mod="variational", expect="silent", old="        singletons = self.mutation_blocks != tskit.NULL\n        switched_blocks = self.mutation_blocks[singletons]", new="        singletons = self.mutation_blocks != tskit.NULL\n        logger.debug('x')\n        switched_blocks = self.mutation_blocks[singletons]"),
]
