"""C23 -- rescaling credits each unphased singleton by phase probability."""

import ast

from ..base import AnalysisError, Defs, U, bool_guards, own_nodes, stmts, store_targets
from ..paths import enum_paths


def run(repo, res):
    res.rule("R23.1", "complement pairing in reallocate_unphased: the two increments of a block are phi and 1 - phi of the same phi = phase[m], applied to the first and second edge of the same blocks_edges row; zeroing and nothing else writes the count column")
    res.rule("R23.2", "orientation typestate of the phase vector: every consumer that pairs phi positionally with blocks_edges[:, 0] (placement rule, rescale -> reallocate_unphased) runs before the statement that flips phi to the placed edge")
    res.rule("R23.3", "the count table whose singleton counts are reallocated is the very table the rescaling kernel then reads (same origin for the first argument of reallocate_unphased and the likelihood argument of mutational_timescale), whichever of the two tables rescale_segsites selects")
    r231(repo, res)
    r232(repo, res)
    r233(repo, res)


def r233(repo, res):
    f = repo.fn("variational", "ExpectationPropagation.rescale")
    d = Defs(f)
    re_calls = [c for c in own_nodes(f) if isinstance(c, ast.Call) and U(c.func).split(".")[-1] == "reallocate_unphased"]
    k_calls = [c for c in own_nodes(f) if isinstance(c, ast.Call) and U(c.func).split(".")[-1] in ("mutational_timescale", "mutational_area")]
    if not re_calls or not k_calls:
        raise AnalysisError("R23.3: reallocate_unphased / mutational_timescale calls not found in ExpectationPropagation.rescale")
    kern = repo.fn("rescaling", U(k_calls[0].func).split(".")[-1])
    kparams = [a.arg for a in kern.args.args]
    # the likelihood/count parameter of the kernel: the 2-D float table (second positional today); locate by name
    pos = next((i for i, a in enumerate(kparams) if "likelihood" in a or "mutations" in a or "counts" in a), 1)
    for rc in re_calls:
        a = d.origins(rc.args[0]) if rc.args else set()
        for kc in k_calls:
            b = d.origins(kc.args[pos]) if len(kc.args) > pos else set()
            res.require(bool(a) and a == b, "R23.3", "variational.ExpectationPropagation.rescale reallocates the table that the rescaling kernel reads", f"reallocate_unphased corrects `{U(rc.args[0]) if rc.args else None}` (origins {sorted(a)}) but {U(kc.func)} reads `{U(kc.args[pos]) if len(kc.args) > pos else None}` (origins {sorted(b)}): for one setting of rescale_segsites the kernel sees every singleton credited wholly to its arbitrary input branch", repo.loc(f, rc), f"{sorted(a)}")


def r231(repo, res):
    f = repo.fn("phasing", "reallocate_unphased")
    names = [a.arg for a in f.args.args]
    if len(names) != 4:
        raise AnalysisError("R23.1: reallocate_unphased signature changed")
    lik, phase, mblock, bedges = names
    d = Defs(f)
    incs, others = [], []
    for s, g in stmts(f):
        for t in store_targets(s):
            if isinstance(t, ast.Subscript) and U(t.value) == lik:
                (incs if isinstance(s, ast.AugAssign) else others).append((s, t, g))
    loc = lambda n: repo.loc(f, n)  # noqa: E731
    # the unpack i, j = blocks_edges[b]
    first = second = blk = None
    for n in own_nodes(f):
        if isinstance(n, ast.Assign) and isinstance(n.targets[0], ast.Tuple) and len(n.targets[0].elts) == 2 and isinstance(n.value, ast.Subscript) and U(n.value.value) == bedges:
            first, second = (U(x) for x in n.targets[0].elts)
            blk = U(n.value.slice)
    if first is None:
        raise AnalysisError("R23.1: `i, j = blocks_edges[b]` not found")
    # the loop pairs m with b
    pair_ok = False
    mvar = None
    for n in own_nodes(f):
        if isinstance(n, ast.For) and isinstance(n.iter, ast.Call) and U(n.iter.func) == "enumerate" and U(n.iter.args[0]) == mblock and isinstance(n.target, ast.Tuple):
            mvar, bvar = (U(x) for x in n.target.elts)
            pair_ok = bvar == blk
    res.require(pair_ok, "R23.1", "phasing.reallocate_unphased block row is the mutation's own block", f"row index `{blk}` is not the block of the enumerated mutation", loc(f))
    if len(incs) != 2:
        res.bad("R23.1", "phasing.reallocate_unphased two increments per singleton", f"{len(incs)} increments of the count column found", loc(f))
        return
    by_edge = {}
    for s, t, g in incs:
        idx = t.slice.elts if isinstance(t.slice, ast.Tuple) else [t.slice]
        by_edge[U(idx[0])] = (s, U(idx[1]) if len(idx) > 1 else None)
    phi = f"{phase}[{mvar}]"
    ok_first = first in by_edge and by_edge[first][1] == "0" and isinstance(by_edge[first][0].op, ast.Add) and U(by_edge[first][0].value) == phi
    ok_second = second in by_edge and by_edge[second][1] == "0" and isinstance(by_edge[second][0].op, ast.Add) and U(by_edge[second][0].value).replace(" ", "") in (f"1-{phi}", f"1.0-{phi}")
    res.require(ok_first, "R23.1", "phasing.reallocate_unphased first edge of the block gets phi", f"increment on `{first}` is `{U(by_edge.get(first, (None,))[0])}`; expected `+= {phi}`", loc(incs[0][0]), f"{first} += {phi}")
    res.require(ok_second, "R23.1", "phasing.reallocate_unphased second edge of the block gets 1 - phi", f"increment on `{second}` is `{U(by_edge.get(second, (None,))[0])}`; expected `+= 1 - {phi}`", loc(incs[1][0]), f"{second} += 1 - {phi}")
    # both increments under the same guards (so they are applied together)
    g0 = sorted(U(e) + str(p) for e, p in bool_guards(incs[0][2]))
    g1 = sorted(U(e) + str(p) for e, p in bool_guards(incs[1][2]))
    res.require(g0 == g1, "R23.1", "phasing.reallocate_unphased both shares are credited together", "the two increments are not under the same conditions", loc(incs[0][0]))
    # zeroing with the mask built from both block columns
    zero_ok = False
    for s, t, g in others:
        idx = t.slice.elts if isinstance(t.slice, ast.Tuple) else [t.slice]
        if len(idx) == 2 and U(idx[1]) == "0" and U(s.value) in ("0.0", "0"):
            mask = U(idx[0])
            sets = [U(x.targets[0].slice) for x in own_nodes(f) if isinstance(x, ast.Assign) and isinstance(x.targets[0], ast.Subscript) and U(x.targets[0].value) == mask and U(x.value) == "True"]
            zero_ok = sorted(sets) == sorted([f"{bedges}[:, 0]", f"{bedges}[:, 1]"]) and not bool_guards(g)
    n_other = len(others)
    res.require(zero_ok and n_other == 1, "R23.1", "phasing.reallocate_unphased zeroes exactly the unphased edges' counts first", f"{n_other} plain stores to the statistics array; zeroing mask not built from both block columns", loc(f))


def consumers_of_phase(repo, cls_mod, cls):
    """methods of the class that hand self.mutation_phase to reallocate_unphased (directly)"""
    out = set()
    ru = repo.fn("phasing", "reallocate_unphased")
    for q, f in repo.mods[cls_mod].funcs.items():
        if q.startswith(cls + ".") and q.count(".") == 1:
            for n in own_nodes(f):
                if isinstance(n, ast.Call) and ru in repo.resolve_call(f, n):
                    if any(U(a) == "self.mutation_phase" for a in n.args):
                        out.add(f.name)
    return out


def r232(repo, res):
    f = repo.fn("variational", "ExpectationPropagation.infer")
    cons_methods = consumers_of_phase(repo, "variational", "ExpectationPropagation")
    if not cons_methods:
        raise AnalysisError("R23.2: no method passes self.mutation_phase to reallocate_unphased")
    # in reallocate_unphased the phase is credited to column 0 of the block row (checked by R23.1), i.e. BLOCK orientation
    paths = enum_paths(f)
    res.count("infer_paths", len(paths))
    n_flip = 0
    seen = set()
    for p in paths:
        flipped_at = None
        for ev in p.events:
            if isinstance(ev, tuple):
                continue
            s = ev
            # flip statement: self.mutation_phase[M] = 1 - self.mutation_phase[M]
            if isinstance(s, ast.Assign) and isinstance(s.targets[0], ast.Subscript) and U(s.targets[0].value) == "self.mutation_phase":
                v = U(s.value).replace(" ", "")
                if v in (f"1-{U(s.targets[0])}".replace(" ", ""), f"1.0-{U(s.targets[0])}".replace(" ", "")):
                    flipped_at = s
                    n_flip += 1
                    continue
            if flipped_at is None:
                continue
            # consumers after the flip
            for c in ast.walk(s):
                if isinstance(c, ast.Call) and isinstance(c.func, ast.Attribute) and U(c.func.value) == "self" and c.func.attr in cons_methods:
                    key = ("call", c.lineno)
                    if key not in seen:
                        seen.add(key)
                        res.bad("R23.2", f"variational.ExpectationPropagation.infer self.{c.func.attr}() consumes a block-oriented phase vector",
                                f"`self.{c.func.attr}(...)` -> reallocate_unphased runs after `{U(flipped_at)}`: the phase now refers to the placed edge, but reallocate_unphased credits it to the first edge of each block, so switched singletons give the placed branch the smaller share", repo.loc(f, c))
                if isinstance(c, ast.Call) and U(c.func) == "np.where" and c.args and "self.mutation_phase" in U(c.args[0]) and "block_edges" in U(c):
                    key = ("where", c.lineno)
                    if key not in seen:
                        seen.add(key)
                        res.bad("R23.2", "variational.ExpectationPropagation.infer placement rule reads a block-oriented phase vector", "the placement np.where(phase < 0.5, second edge, first edge) runs after the flip", repo.loc(f, c))
    # positive evidence: each consumer call / placement rule that precedes the flip on all paths
    for n in own_nodes(f):
        if isinstance(n, ast.Call) and isinstance(n.func, ast.Attribute) and U(n.func.value) == "self" and n.func.attr in cons_methods and ("call", n.lineno) not in seen:
            res.ok("R23.2", f"variational.ExpectationPropagation.infer self.{n.func.attr}() consumes a block-oriented phase vector", "no phase flip precedes this call on any path", repo.loc(f, n))
        if isinstance(n, ast.Call) and U(n.func) == "np.where" and n.args and "self.mutation_phase" in U(n.args[0]) and "block_edges" in U(n) and ("where", n.lineno) not in seen:
            # check orientation of the placement rule: phase < 0.5 -> second edge
            a = n.args
            ok = len(a) == 3 and U(a[0]).replace(" ", "").endswith("<0.5") and U(a[1]).replace(" ", "").endswith(",1]") and U(a[2]).replace(" ", "").endswith(",0]")
            res.require(ok, "R23.2", "variational.ExpectationPropagation.infer placement rule reads a block-oriented phase vector", f"placement rule `{U(n)[:80]}` does not map phi < 0.5 to the second edge of the block", repo.loc(f, n), "phi < 0.5 -> block_edges[:, 1] else block_edges[:, 0]; before the flip")
    res.count("phase_flips_on_paths", n_flip)
    # other methods must not flip the stored phase either before their consumers
    for q, g in repo.mods["variational"].funcs.items():
        if q.startswith("ExpectationPropagation.") and g is not f and q.count(".") == 1:
            for s in own_nodes(g):
                if isinstance(s, ast.Assign) and isinstance(s.targets[0], ast.Subscript) and U(s.targets[0].value) == "self.mutation_phase" and "1 -" in U(s.value):
                    res.unres("R23.2", f"variational.{q} flips the phase", "flip outside infer: ordering against consumers not analysed", repo.loc(g, s))


_FLIP = "        # report phase relative to the edge on which each singleton was placed\n        switched = self.mutation_phase < 0.5\n        self.mutation_phase[switched] = 1 - self.mutation_phase[switched]\n        logger.info(f\"Switched phase of {np.sum(switched)} singletons\")\n"
VARIANTS = [
    dict(name="reallocate-other-table", mod="variational", expect="fire", rule="R23.3", old="        reallocate_unphased(  # correct mutation counts for unphased singletons\n            likelihoods,", new="        reallocate_unphased(  # correct mutation counts for unphased singletons\n            self.sizebiased_likelihoods,"),
    dict(name="flip-before-rescale", mod="variational", expect="fire", rule="R23.2",
         edits=[("variational", _FLIP, ""), ("variational", "        if rescale_intervals > 0 and rescale_iterations > 0:\n            rescale_timing = time.time()", _FLIP + "        if rescale_intervals > 0 and rescale_iterations > 0:\n            rescale_timing = time.time()")]),
    dict(name="flip-before-placement", mod="variational", expect="fire", rule="R23.2",
         edits=[("variational", _FLIP, ""), ("variational", "        singletons = self.mutation_blocks != tskit.NULL\n", _FLIP + "        singletons = self.mutation_blocks != tskit.NULL\n")]),
    dict(name="placement-swapped", mod="variational", expect="fire", rule="R23.2",
         old="            self.block_edges[switched_blocks, 1],\n            self.block_edges[switched_blocks, 0],", new="            self.block_edges[switched_blocks, 0],\n            self.block_edges[switched_blocks, 1],"),
    dict(name="shares-swapped", mod="phasing", expect="fire", rule="R23.1",
         old="        edges_likelihood[i, 0] += mutations_phase[m]\n        edges_likelihood[j, 0] += 1 - mutations_phase[m]", new="        edges_likelihood[j, 0] += mutations_phase[m]\n        edges_likelihood[i, 0] += 1 - mutations_phase[m]"),
    dict(name="second-share-full", mod="phasing", expect="fire", rule="R23.1",
         old="        edges_likelihood[j, 0] += 1 - mutations_phase[m]", new="        edges_likelihood[j, 0] += 1"),
    dict(name="wrong-column", mod="phasing", expect="fire", rule="R23.1",
         old="        edges_likelihood[j, 0] += 1 - mutations_phase[m]", new="        edges_likelihood[j, 1] += 1 - mutations_phase[m]"),
    dict(name="mask-misses-second-edge", mod="phasing", expect="fire", rule="R23.1",
         old="    edges_unphased[blocks_edges[:, 1]] = True\n\n    num_unphased", new="\n    num_unphased"),
    dict(name="twin-rename", mod="phasing", expect="silent",
         old="        i, j = blocks_edges[b]\n        assert tskit.NULL < i < num_edges\n        assert edges_unphased[i]\n        assert tskit.NULL < j < num_edges\n        assert edges_unphased[j]",
         new="        i, j = blocks_edges[b]\n        assert edges_unphased[i]\n        assert edges_unphased[j]"),
    dict(name="twin-no-flip-at-all-is-c05s-business", mod="variational", expect="silent", old="            rescale_timing -= time.time()\n", new="            rescale_timing -= time.time()\n            logger.debug('rescaled')\n"),
]
