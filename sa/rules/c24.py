"""C24 -- per-edge tallies: size contract (R24.1), kernel typing (R24.2), wiring of the
explicit sample mask and the size_biased flag (R24.3), NULL-edge guards (R24.4)."""

import ast

from . import nullidx
from ..base import AnalysisError, Defs, U, bool_guards, formula, own_nodes, stmts, store_targets, walk_guarded
from .common import e2_rule

NODE_ID_SOURCES = ("edges_parent", "edges_child", "mutations_node")


def node_sized_params(kernel):
    """parameters of a kernel whose ``.size`` dimensions an array that is indexed by node
    ids (values read from edges_parent / edges_child / mutations_node)"""
    d = Defs(kernel)
    out = {}
    # names holding node ids
    node_vars = set()
    changed = True
    while changed:
        changed = False
        for name, vals in d.defs.items():
            if name in node_vars:
                continue
            for v in vals:
                src = v if isinstance(v, ast.AST) else (v[1] if v[0] == "unpack" else None)
                if src is None or not isinstance(src, ast.AST):
                    continue
                for n in ast.walk(src):
                    if isinstance(n, ast.Subscript) and isinstance(n.value, ast.Name) and n.value.id in NODE_ID_SOURCES:
                        node_vars.add(name)
                        changed = True
    # arrays dimensioned by X.size
    for name, vals in d.defs.items():
        for v in vals:
            if isinstance(v, ast.Call) and U(v.func) in ("np.zeros", "np.full", "np.ones", "np.empty") and v.args:
                dim = v.args[0]
                for o in d.origins(dim):
                    if o.endswith(".size") and o[:-5] in [a.arg for a in kernel.args.args]:
                        # is the array indexed by a node id anywhere?
                        for n in own_nodes(kernel):
                            if isinstance(n, ast.Subscript) and isinstance(n.value, ast.Name) and n.value.id == name:
                                if any(isinstance(x, ast.Name) and x.id in node_vars for x in ast.walk(n.slice)):
                                    out.setdefault(o[:-5], set()).add(name)
    return out


def alias_names(d, name):
    """local names connected to ``name`` by pure copies (x = y)"""
    out, todo = set(), [name]
    while todo:
        n = todo.pop()
        if n in out:
            continue
        out.add(n)
        for v in d.values(n):
            if isinstance(v, ast.Name):
                todo.append(v.id)
        for other, vals in d.defs.items():
            if any(isinstance(v, ast.Name) and v.id == n for v in vals):
                todo.append(other)
    return out


def size_facts(f, var, upto):
    """(branch guards, relation, expr) facts about ``var.size`` established before ``upto``"""
    facts = []
    names = alias_names(Defs(f), var)
    for v in sorted(names):
        facts += _size_facts(f, v, upto)
    return facts


def _size_facts(f, var, upto):
    facts = []
    for s, g in stmts(f):
        if s.lineno >= upto.lineno:
            continue
        if isinstance(s, ast.Assign) and any(isinstance(t, ast.Name) and t.id == var for t in s.targets):
            v = s.value
            if isinstance(v, ast.Call) and U(v.func) in ("np.full", "np.zeros", "np.ones") and v.args:
                facts.append((g, "==", U(v.args[0]), s))
            elif isinstance(v, ast.Name):
                continue  # pure copy: facts come from the alias
            else:
                facts.append((g, "?", U(v), s))
        if isinstance(s, ast.Assert):
            t = s.test
            if isinstance(t, ast.Compare) and len(t.ops) == 1:
                l, r = U(t.left), U(t.comparators[0])
                if l in (f"{var}.size", f"len({var})", f"{var}.shape[0]"):
                    other = r
                elif r in (f"{var}.size", f"len({var})", f"{var}.shape[0]"):
                    other = l
                else:
                    continue
                op = {ast.Eq: "==", ast.NotEq: "!=", ast.Lt: "<", ast.Gt: ">", ast.LtE: "<=", ast.GtE: ">="}.get(type(t.ops[0]), "?")
                facts.append((g, op, other, s))
        if isinstance(s, ast.If):
            # raise unless size == N
            t = s.test
            if isinstance(t, ast.Compare) and len(t.ops) == 1 and s.body and isinstance(s.body[0], ast.Raise):
                l, r = U(t.left), U(t.comparators[0])
                if l in (f"{var}.size", f"len({var})") or r in (f"{var}.size", f"len({var})"):
                    other = r if l.startswith(var) or l.startswith("len(") else l
                    neg = {ast.Eq: "!=", ast.NotEq: "=="}.get(type(t.ops[0]), "?")
                    facts.append((g, neg, other, s))
    return facts


def run(repo, res):
    res.rule("R24.1", "size contract: arrays indexed by node id inside the kernel are dimensioned by <param>.size, so every branch of the wrapper must agree that <param>.size == ts.num_nodes; a branch asserting the opposite is a contradiction")
    res.rule("R24.2", "E2 conformance of the _count_mutations and _block_singletons call sites; mutation_span_array tallies only on mut.edge != NULL")
    res.rule("R24.3", "the explicit sample mask and the size_biased flag reach the kernel unchanged; the default mask is built from ts.samples()")
    res.rule("R24.4", "kernel tallies: the edge credited is looked up from the mutation's own node, increments are guarded by edge != NULL, the weight is the sample count iff size_biased")
    res.rule("R24.5", "no id that may be tskit.NULL (a mutation's edge, a node's individual, entries of NULL-initialised tables) is used as an array index without a dominating NULL test: numpy would silently tally it on the last row")
    nullidx.run(repo, res, "R24.5", floor=6, scope=["rescaling", "phasing", "variational", "util.mutation_span_array", "discrete.Likelihoods.get_mut_edges"])
    from . import edgesweep

    res.rule("R24.6", "set/reset pairing of the incremental tree sweeps: every per-node table the edge-insertion loop sets is reset to NULL by the edge-removal loop, and every accumulator incremented on insertion is decremented on removal")
    edgesweep.run(repo, res, "R24.6")
    from .c30 import sweep_exhaustive

    sweep_exhaustive(repo, res, "R24.6", [("rescaling", "_count_mutations"), ("phasing", "_mutation_frequency"), ("phasing", "_block_singletons")])
    kernel = repo.fn("rescaling", "_count_mutations")
    wrap = repo.fn("rescaling", "count_mutations")
    loc = lambda f, n=None: repo.loc(f, n)  # noqa: E731

    # R24.1 ---------------------------------------------------------------------------
    contract = node_sized_params(kernel)
    if not contract:
        raise AnalysisError("R24.1: no node-id-indexed array dimensioned by a parameter's size found in _count_mutations")
    calls = [n for n in own_nodes(wrap) if isinstance(n, ast.Call) and kernel in repo.resolve_call(wrap, n)]
    if len(calls) != 1:
        raise AnalysisError("R24.1: expected exactly one _count_mutations call in count_mutations")
    call = calls[0]
    names = [a.arg for a in kernel.args.args]
    for p, arrays in sorted(contract.items()):
        arg = call.args[names.index(p)]
        if not isinstance(arg, ast.Name):
            res.unres("R24.1", f"count_mutations {p}", f"argument {U(arg)} is not a local", loc(wrap, call))
            continue
        facts = size_facts(wrap, arg.id, call)
        want = "ts.num_nodes"
        for g, op, other, s in facts:
            branch = " and ".join(U(e) if pol else f"not ({U(e)})" for e, pol in bool_guards(g)) or "always"
            cons = f"count_mutations branch[{branch}] {arg.id}.size {op} {other}"
            if op == "==" and other == want:
                res.ok("R24.1", f"count_mutations branch[{branch}] establishes {arg.id}.size == {want}", f"{U(s)[:80]}; kernel arrays {sorted(arrays)} are indexed by node id", loc(wrap, s))
            elif op == "?":
                res.unres("R24.1", cons, "size of this definition not inferred", loc(wrap, s))
            else:
                res.bad("R24.1", f"count_mutations branch[{branch}] establishes {arg.id}.size == {want}",
                        f"this branch states `{arg.id}.size {op} {other}` but the kernel indexes {sorted(arrays)} (sized {p}.size) by node id, which needs size == {want}: "
                        f"contradiction (a correctly sized explicit mask fails the assertion)", loc(wrap, s))
        if not facts:
            res.unres("R24.1", f"count_mutations {p}", "no size fact established", loc(wrap, call))

    # R24.2 ---------------------------------------------------------------------------
    bs = repo.fn("phasing", "_block_singletons")
    e2_rule(repo, res, "R24.2", lambda caller, callee: callee in (kernel, bs), min_sites=2)
    msa = repo.fn("util", "mutation_span_array")
    found = False
    for s, g in stmts(msa):
        if isinstance(s, ast.AugAssign) and isinstance(s.target, ast.Subscript) and isinstance(s.op, ast.Add):
            idx = U(s.target.slice)
            if ".edge" in idx:
                found = True
                edge_expr = idx.split(",")[0].strip("() ")
                ok = nullidx._guarded(g, edge_expr)
                res.require(ok, "R24.2", "mutation_span_array tally guarded by edge != NULL", f"increment `{U(s)}` is not guarded by `{edge_expr} != tskit.NULL`", loc(msa, s), U(s))
    if not found:
        raise AnalysisError("R24.2: tally increment not found in mutation_span_array")

    # R24.3 ---------------------------------------------------------------------------
    d = Defs(wrap)
    a0 = call.args[names.index("node_is_sample")]
    o = d.origins(a0)
    okm = "<param node_is_sample>" in o and all(x == "<param node_is_sample>" or x.startswith("np.full(ts.num_nodes, False") for x in o)
    res.require(okm, "R24.3", "count_mutations forwards the explicit mask", f"kernel mask originates from {sorted(o)}", loc(wrap, call), f"{sorted(o)}")
    dflt = False
    for s, g in stmts(wrap):
        if isinstance(s, ast.Assign) and isinstance(s.targets[0], ast.Subscript) and U(s.targets[0].value) in alias_names(d, U(a0)):
            dflt = "ts.samples()" in U(s.targets[0].slice) and U(s.value) == "True" and any(pol and U(e) == "node_is_sample is None" for e, pol in bool_guards(g))
    res.require(dflt, "R24.3", "count_mutations default mask marks ts.samples() only when no mask is given", "default mask is not `mask[ts.samples()] = True` under `node_is_sample is None`", loc(wrap))
    a_sb = call.args[names.index("size_biased")]
    res.require(d.origins(a_sb) == {"<param size_biased>"}, "R24.3", "count_mutations forwards size_biased", f"origin {sorted(d.origins(a_sb))}", loc(wrap, call))

    # R24.4 ---------------------------------------------------------------------------
    kd = Defs(kernel)
    incs = []
    for s, g in stmts(kernel):
        if isinstance(s, ast.AugAssign) and isinstance(s.target, ast.Subscript) and U(s.target.value) == "edges_mutations":
            incs.append((s, g))
    if len(incs) != 1:
        raise AnalysisError(f"R24.4: expected one tally increment on edges_mutations, found {len(incs)}")
    s, g = incs[0]
    e = s.target.slice
    eo = kd.origins(e)
    # the edge is looked up for the mutation's own node
    own = False
    for v in kd.values(e.id) if isinstance(e, ast.Name) else []:
        if isinstance(v, ast.Subscript) and U(v.value) == "nodes_edge":
            co = kd.origins(v.slice)
            own = own or any(x.startswith("mutations_node[") for x in co)
    res.require(own, "R24.4", "_count_mutations credits the edge above the mutation's node", f"edge index originates from {sorted(eo)}", loc(kernel, s), f"{sorted(eo)}")
    guarded = any(pol and U(x).replace(" ", "") in (f"{U(e)}!=tskit.NULL",) for x, pol in bool_guards(g))
    res.require(guarded, "R24.4", "_count_mutations skips mutations above a root", f"increment `{U(s)}` not guarded by `{U(e)} != tskit.NULL`", loc(kernel, s))
    w = s.value
    okw = isinstance(w, ast.IfExp) and U(w.test) == "size_biased" and U(w.orelse) in ("1.0", "1") and U(w.body).startswith("nodes_samples[")
    res.require(okw, "R24.4", "_count_mutations weight is sample count iff size_biased", f"weight is `{U(w)}`", loc(kernel, s), U(w))
    # the mutations_edge map is written under the same guard
    me = [(x, gg) for x, gg in stmts(kernel) if isinstance(x, ast.Assign) and isinstance(x.targets[0], ast.Subscript) and U(x.targets[0].value) == "mutations_edge"]
    okme = bool(me) and all(U(x.value) == U(e) and any(pol and U(t).replace(" ", "") == f"{U(e)}!=tskit.NULL" for t, pol in bool_guards(gg)) for x, gg in me)
    res.require(okme, "R24.4", "_count_mutations records the credited edge per mutation", "mutations_edge store is not `mutations_edge[m] = e` under the NULL guard", loc(kernel))


VARIANTS = [dict(v, rule="R24.5") for v in nullidx.VARIANTS if v["name"] != "root-parent-unguarded"] + [dict(v, rule="R24.6") for v in __import__("sa.rules.edgesweep", fromlist=["VARIANTS"]).VARIANTS] + [
    dict(name="assert-ne", mod="rescaling", expect="fire", rule="R24.1",
         old="        assert node_is_sample.size == ts.num_nodes", new="        assert node_is_sample.size != ts.num_nodes"),
    dict(name="default-sized-by-samples", mod="rescaling", expect="fire", rule="R24.1",
         old="        node_is_sample = np.full(ts.num_nodes, False)", new="        node_is_sample = np.full(ts.num_samples, False)"),
    dict(name="mask-ignored", mod="rescaling", expect="fire", rule="R24.3",
         old="    return _count_mutations(\n        node_is_sample,", new="    return _count_mutations(\n        np.bitwise_and(ts.nodes_flags, 1).astype(bool),"),
    dict(name="size-biased-dropped", mod="rescaling", expect="fire", rule="R24.3",
         old="        ts.sequence_length,\n        size_biased,\n    )", new="        ts.sequence_length,\n        False,\n    )"),
    dict(name="null-guard-dropped", mod="rescaling", expect="fire", rule="R24.4",
         old="            if e != tskit.NULL:\n                mutations_edge[m] = e\n                edges_mutations[e] += nodes_samples[c] if size_biased else 1.0",
         new="            if True:\n                mutations_edge[m] = e\n                edges_mutations[e] += nodes_samples[c] if size_biased else 1.0"),
    dict(name="weight-flipped", mod="rescaling", expect="fire", rule="R24.4",
         old="nodes_samples[c] if size_biased else 1.0", new="1.0 if size_biased else nodes_samples[c]"),
    dict(name="position-int", mod="rescaling", expect="fire", rule="R24.2",
         old="        ts.sites_position[ts.mutations_site],\n        ts.edges_parent,\n        ts.edges_child,\n        ts.edges_left,\n        ts.edges_right,\n        ts.indexes_edge_insertion_order,\n        ts.indexes_edge_removal_order,\n        ts.sequence_length,\n        size_biased,",
         new="        ts.mutations_site,\n        ts.edges_parent,\n        ts.edges_child,\n        ts.edges_left,\n        ts.edges_right,\n        ts.indexes_edge_insertion_order,\n        ts.indexes_edge_removal_order,\n        ts.sequence_length,\n        size_biased,"),
    dict(name="span-array-null-guard", mod="util", expect="fire", rule="R24.2",
         old="        if mut.edge != tskit.NULL:\n            mutation_spans[mut.edge, 0] += 1", new="        if mut.edge != tskit.NULL or True:\n            mutation_spans[mut.edge, 0] += 1"),
    dict(name="twin-assert-flipped-sides", mod="rescaling", expect="silent",
         old="        assert node_is_sample.size == ts.num_nodes", new="        assert ts.num_nodes == node_is_sample.size"),
    dict(name="twin-temp", mod="rescaling", expect="silent",
         old="    return _count_mutations(\n        node_is_sample,", new="    mask = node_is_sample\n    return _count_mutations(\n        mask,"),
]
