"""C27 -- constraint enforcement is minimal and idempotent (structural clauses; shares C03's rules)."""

from . import c03


def run(repo, res):
    from . import sampleorder

    res.rule("R27.4", "sample nodes are identified by ts.samples() / the NODE_IS_SAMPLE bit, never by position in the node table: num_samples is used as a count only (no slice bound, no id range, no ordering comparison with a node id)")
    sampleorder.run(repo, res, "R27.4", floor=1, scope=["core.EstimationMethod.__init__", "util.constrain_ages", "util._constrain_ages"])
    res.rule("R27.1", "inputs that already satisfy every constraint leave through the early exit before any store; the kernel works on a copy; the least-squares phase runs max_iterations times and is off by default for contemporaneous samples; no other phase writes times")
    res.rule("R27.2", "(= R03.2) the forced pass raises a parent exactly to the violated bound t[c] (+) eps, under the test of that very bound")
    res.rule("R27.3", "(= R03.1) the least-squares phase never moves a fixed node")
    c03.r271(repo, res, "R27.1")
    c03.r032(repo, res, "R27.2")
    c03.r031(repo, res, "R27.3")


VARIANTS = [dict(v, rule="R27.4") for v in __import__("sa.rules.sampleorder", fromlist=["VARIANTS"]).VARIANTS if v["mod"] == "core"] + [
    dict(name="early-exit-after-store", mod="util", expect="fire", rule="R27.1", old="    for _ in range(max_iterations):  # method of alternating projections\n        if np.all(nodes_time[edges_parent] - nodes_time[edges_child] > epsilon):\n            return nodes_time\n", new="    for _ in range(max_iterations):  # method of alternating projections\n        nodes_time[edges_parent[0]] += 0.0\n        if np.all(nodes_time[edges_parent] - nodes_time[edges_child] > epsilon):\n            return nodes_time\n"),
    dict(name="no-copy", mod="util", expect="fire", rule="R27.1", old="    nodes_time = nodes_time.copy()\n    edges_cavity", new="    edges_cavity"),
    dict(name="always-one-iteration", mod="util", expect="fire", rule="R27.1", old="    for _ in range(max_iterations):  # method of alternating projections", new="    for _ in range(max_iterations + 1):  # method of alternating projections"),
    dict(name="ls-on-by-default", mod="core", expect="fire", rule="R27.1", old="            else:\n                self.constr_iterations = 0\n", new="            else:\n                self.constr_iterations = DEFAULT_CONSTRAINT_ITERATIONS\n"),
    dict(name="overshoot", mod="util", expect="fire", rule="R27.2", old="                nodes_time[c] + epsilon, np.nextafter(nodes_time[c], np.inf)\n", new="                nodes_time[c] + epsilon * 10, np.nextafter(nodes_time[c], np.inf)\n"),
    dict(name="tested-bound-differs", mod="util", expect="fire", rule="R27.2", old="        if nodes_time[c] + epsilon >= nodes_time[p]:", new="        if nodes_time[c] + 2 * epsilon >= nodes_time[p]:"),
]
