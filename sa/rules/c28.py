"""C28 -- preprocessing: wiring clause only."""

import ast

from ..base import AnalysisError, Defs, U, bool_guards, own_nodes, stmts
from ..paths import enum_paths


def run(repo, res):
    from . import flagsrule

    res.rule("R28.3", "preprocessing keeps the samples: split_disjoint_nodes and the helpers it shares decide sample status by the NODE_IS_SAMPLE bit or ts.samples(), never by comparing the whole flags word (samples may carry further bits)")
    flagsrule.run(repo, res, "R28.3", floor=2, scope=["util.preprocess_ts", "util.split_disjoint_nodes", "util._split_disjoint_nodes", "util._reorder_nodes"])
    res.rule("R28.1", "every keyword parameter of preprocess_ts is consumed (passed to the tskit call of the same name, tested in a guard, or folded into another parameter); the two sibling tables.simplify calls pass identical keyword sets that originate from the same parameters; delete_intervals is called with simplify=False; node splitting runs iff split_disjoint; delete_intervals are used as given when supplied")
    res.rule("R28.2", "derived intervals: flanks only under erase_flanks, gaps only when >= minimum_gap, intervals built from adjacent site positions; the output is sorted and built from the same tables")
    f = repo.fn("util", "preprocess_ts")
    d = Defs(f)
    params = [a.arg for a in f.args.kwonlyargs]
    simp = [c for c in own_nodes(f) if isinstance(c, ast.Call) and U(c.func) == "tables.simplify"]
    if len(simp) != 2:
        raise AnalysisError(f"R28.1: expected two sibling tables.simplify calls, found {len(simp)}")
    kws = [sorted((k.arg or "**", U(k.value)) for k in c.keywords) for c in simp]
    res.require(kws[0] == kws[1], "R28.1", "util.preprocess_ts sibling simplify calls agree", f"keyword sets differ: {kws[0]} vs {kws[1]}", repo.loc(f, simp[1]), f"{kws[0]}")
    for c in simp:
        res.require(not c.args, "R28.1", f"util.preprocess_ts simplify at line-order #{simp.index(c)} keeps all samples", "a samples argument restricts or reorders the samples", repo.loc(f, c))
        for k in c.keywords:
            if k.arg in ("filter_populations", "filter_individuals", "filter_sites"):
                o = d.origins(k.value)
                res.require(o == {f"<param {k.arg}>"}, "R28.1", f"util.preprocess_ts simplify#{simp.index(c)} {k.arg} comes from the parameter of the same name", f"origin {sorted(o)}", repo.loc(f, c), k.arg)
        res.require(any(k.arg is None and U(k.value) == "kwargs" for k in c.keywords), "R28.1", f"util.preprocess_ts simplify#{simp.index(c)} forwards **kwargs", "extra simplify options are dropped", repo.loc(f, c))
    di = [c for c in own_nodes(f) if isinstance(c, ast.Call) and U(c.func) == "tables.delete_intervals"]
    ok = len(di) == 1 and any(k.arg == "simplify" and U(k.value) == "False" for k in di[0].keywords) and U(di[0].args[0]) == "delete_intervals"
    res.require(ok, "R28.1", "util.preprocess_ts delete_intervals(delete_intervals, simplify=False)", "deletion call differs", repo.loc(f))
    # consumption of each parameter
    consumed = {}
    for p in params:
        uses = []
        for s, g in stmts(f):
            for n in ast.walk(s) if not isinstance(s, (ast.If, ast.For, ast.While, ast.With, ast.Try)) else ([s.test] if isinstance(s, (ast.If, ast.While)) else []):
                for x in ast.walk(n):
                    if isinstance(x, ast.Name) and x.id == p and isinstance(x.ctx, ast.Load):
                        kind = "guard" if isinstance(s, (ast.If, ast.While)) else ("log" if U(s).startswith(("logger.", "logging.")) else "use")
                        uses.append(kind)
        consumed[p] = uses
        real = [u for u in uses if u != "log"]
        res.require(bool(real), "R28.1", f"util.preprocess_ts parameter {p} is consumed", "the option is accepted and ignored", repo.loc(f), f"{len(real)} uses")
    # split iff split_disjoint
    sp = [(s, g) for s, g in stmts(f) if any(isinstance(c, ast.Call) and U(c.func) == "split_disjoint_nodes" for c in ast.walk(s)) and not isinstance(s, (ast.If,))]
    ok = len(sp) == 1 and [U(e) for e, pol in bool_guards(sp[0][1]) if pol] == ["split_disjoint"]
    res.require(ok, "R28.1", "util.preprocess_ts splits disjoint nodes iff split_disjoint", "the split is not controlled by the flag alone", repo.loc(f))
    dfl = any(isinstance(s, ast.If) and U(s.test) == "split_disjoint is None" and U(s.body[0]) == "split_disjoint = True" for s, g in stmts(f))
    res.require(dfl, "R28.1", "util.preprocess_ts split_disjoint defaults to True only when not given", "default handling differs", repo.loc(f))
    # user intervals used as given: the derivation is under `delete_intervals is None`
    der = [(s, g) for s, g in stmts(f) if isinstance(s, ast.Assign) and U(s.targets[0]) == "delete_intervals"]
    ok = bool(der) and all(any(pol and U(e) == "delete_intervals is None" for e, pol in bool_guards(g)) for s, g in der)
    res.require(ok, "R28.1", "util.preprocess_ts derives intervals only when the user supplied none", "user-supplied delete_intervals are overwritten", repo.loc(f))
    conflict = any(isinstance(s, ast.If) and "delete_intervals is not None" in U(s.test) and "minimum_gap is not None" in U(s.test) and "erase_flanks is not None" in U(s.test) and isinstance(s.body[0], ast.Raise) for s, g in stmts(f))
    res.require(conflict, "R28.1", "util.preprocess_ts rejects delete_intervals combined with minimum_gap/erase_flanks", "guard missing", repo.loc(f))
    rt = [s for s, g in stmts(f) if isinstance(s, ast.If) and U(s.test) == "remove_telomeres is not None"]
    ok = len(rt) == 1 and "erase_flanks = remove_telomeres" in U(rt[0]) and "raise ValueError" in U(rt[0])
    res.require(ok, "R28.1", "util.preprocess_ts folds the deprecated remove_telomeres into erase_flanks", "alias handling differs", repo.loc(f))
    # R28.2
    app = [(s, g) for s, g in stmts(f) if isinstance(s, ast.Expr) and isinstance(s.value, ast.Call) and U(s.value.func) == "delete_intervals.append"]
    flank = [(s, g) for s, g in app if any(pol and U(e) == "erase_flanks" for e, pol in bool_guards(g))]
    gaps = [(s, g) for s, g in app if (s, g) not in flank]
    res.require(len(flank) == 2 and len(gaps) == 1, "R28.2", "util.preprocess_ts two flank intervals under erase_flanks, one gap interval rule", f"{len(flank)} flank and {len(gaps)} gap interval sources", repo.loc(f))
    # the loop that appends the gap interval iterates the indices where (adjacent site distance) >= minimum_gap
    thr = None
    if gaps:
        loops = [e[1] for e in gaps[0][1] if e[0] == "loop" and isinstance(e[1], ast.For)]
        if loops:
            thr = d.inline(loops[-1].iter)
    cond = None
    if isinstance(thr, ast.Subscript) and U(thr.slice) == "0" and isinstance(thr.value, ast.Call) and U(thr.value.func) in ("np.where", "np.nonzero") and len(thr.value.args) == 1:
        cond = thr.value.args[0]
    elif isinstance(thr, ast.Call) and U(thr.func) == "np.flatnonzero" and len(thr.args) == 1:
        cond = thr.args[0]
    ok = False
    if isinstance(cond, ast.Compare) and len(cond.ops) == 1:
        l, op, r = cond.left, cond.ops[0], cond.comparators[0]
        if isinstance(op, ast.LtE):
            l, op, r = r, ast.GtE(), l
        base = None  # X in  X[1:] - X[:-1]  /  np.diff(X)
        if isinstance(l, ast.BinOp) and isinstance(l.op, ast.Sub) and isinstance(l.left, ast.Subscript) and isinstance(l.right, ast.Subscript):
            if U(l.left.slice).replace(" ", "") == "1:" and U(l.right.slice).replace(" ", "") == ":-1" and U(l.left.value) == U(l.right.value):
                base = U(l.left.value)
        elif isinstance(l, ast.Call) and U(l.func) == "np.diff" and len(l.args) == 1 and not l.keywords:
            base = U(l.args[0])
        ok = isinstance(op, ast.GtE) and U(r) == "minimum_gap" and base is not None and base.replace(" ", "") in ("sites", "tables.sites.position[:]", "tables.sites.position")
    res.require(ok, "R28.2", "util.preprocess_ts gaps are differences of adjacent site positions compared with >= minimum_gap", f"gap indices: `{U(thr)}`", repo.loc(f))
    so = d.origins(ast.Name(id="sites", ctx=ast.Load()))
    res.require(so == {"tables.sites.position[:]"}, "R28.2", "util.preprocess_ts site positions come from the input's site table", f"origin {sorted(so)}", repo.loc(f))
    paths = [p for p in enum_paths(f) if p.exit == "return"]
    bad = 0
    for p in paths:
        calls = [U(c.func) for c in p.calls()]
        if "tables.sort" not in calls or calls.index("tables.sort") < max(i for i, c in enumerate(calls) if c == "tables.simplify"):
            bad += 1
        if not U(p.node.value) == "tables.tree_sequence()":
            bad += 1
    res.require(bad == 0, "R28.2", "util.preprocess_ts every returning path sorts after simplifying and returns tables.tree_sequence()", f"{bad} paths differ", repo.loc(f), f"{len(paths)} paths")


VARIANTS = [dict(name="flags-equality-in-split", mod="util", expect="fire", rule="R28.3", old="    node_is_sample = np.bitwise_and(ts.nodes_flags, tskit.NODE_IS_SAMPLE).astype(bool)", new="    node_is_sample = ts.nodes_flags == tskit.NODE_IS_SAMPLE")] + [
    dict(name="filter-sites-dropped-in-one-sibling", mod="util", expect="fire", rule="R28.1", old="        logger.info(\"No gaps to remove\")\n        tables.simplify(\n            filter_populations=filter_populations,\n            filter_individuals=filter_individuals,\n            filter_sites=filter_sites,", new="        logger.info(\"No gaps to remove\")\n        tables.simplify(\n            filter_populations=filter_populations,\n            filter_individuals=filter_individuals,"),
    dict(name="filter-flags-crossed", mod="util", expect="fire", rule="R28.1", old="        tables.simplify(\n            filter_populations=filter_populations,\n            filter_individuals=filter_individuals,\n            filter_sites=filter_sites,\n            record_provenance=False,\n            **kwargs,\n        )\n    else:", new="        tables.simplify(\n            filter_populations=filter_individuals,\n            filter_individuals=filter_populations,\n            filter_sites=filter_sites,\n            record_provenance=False,\n            **kwargs,\n        )\n    else:"),
    dict(name="delete-intervals-simplifies", mod="util", expect="fire", rule="R28.1", old="        tables.delete_intervals(delete_intervals, simplify=False, record_provenance=False)", new="        tables.delete_intervals(delete_intervals, record_provenance=False)"),
    dict(name="split-always", mod="util", expect="fire", rule="R28.1", old="    tables.sort()\n    if split_disjoint:\n        ts = split_disjoint_nodes", new="    tables.sort()\n    if split_disjoint or minimum_gap:\n        ts = split_disjoint_nodes"),
    dict(name="user-intervals-overwritten", mod="util", expect="fire", rule="R28.1", old="    if delete_intervals is None:\n        if minimum_gap is None:", new="    if delete_intervals is None or True:\n        if minimum_gap is None:"),
    dict(name="gap-strict", mod="util", expect="fire", rule="R28.2", old="        threshold_gaps = np.where(gaps >= minimum_gap)[0]", new="        threshold_gaps = np.where(gaps > minimum_gap)[0]"),
    dict(name="flanks-always", mod="util", expect="fire", rule="R28.2", old="        if erase_flanks:\n            first_site = sites[0] - 1", new="        if True:\n            first_site = sites[0] - 1"),
    dict(name="samples-restricted", mod="util", expect="fire", rule="R28.1", old="        logger.info(\"No gaps to remove\")\n        tables.simplify(\n            filter_populations", new="        logger.info(\"No gaps to remove\")\n        tables.simplify(\n            tree_sequence.samples()[::-1],\n            filter_populations"),
    dict(name="twin-log-text", mod="util", expect="silent", old="        logger.info(\"No gaps to remove\")", new="        logger.info(\"Nothing to delete\")"),
]
