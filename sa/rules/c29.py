"""C29 -- splitting disjoint nodes: copy-completeness and ownership clauses."""

import ast

from ..base import AnalysisError, Defs, U, bool_guards, own_nodes, stmts
from ..e4 import Typing, classify
from .common import e2_rule, engine

NODE_COLUMNS = {"flags", "time", "population", "individual", "metadata", "metadata_offset"}
ALLOWED_WRITES = {
    ("Table:nodes", "flags", "store"), ("Table:edges", "parent", "store"), ("Table:edges", "child", "store"),
    ("Table:mutations", "node", "store"), ("Tables", "sort", "call"), ("Tables", "build_index", "call"),
    ("Tables", "compute_mutation_parents", "call"), ("Table:nodes", "set_columns", "call"),
}  # fmt: skip


def run(repo, res):
    res.rule("R29.7", "_relabel_mutations_node registers, for every inserted edge, the new id of both its child and its parent in the old-to-new map, unconditionally: the map must always name the piece of a split node that is present in the current tree (a piece that is a local root is only ever seen as a parent)")
    rl_ = repo.fn("util", "_relabel_mutations_node")
    ins_ = [w for w in own_nodes(rl_) if isinstance(w, ast.While) and "insert" in U(w.test)]
    if len(ins_) != 1:
        raise AnalysisError("R29.7: edge-insertion loop of _relabel_mutations_node not found")
    from ..base import walk_guarded as _wg

    stores_ = []
    for st_, g_ in _wg(ins_[0].body):
        if isinstance(st_, ast.Assign) and isinstance(st_.targets[0], ast.Subscript) and isinstance(st_.value, ast.Name):
            conds_ = [U(e) for e, pol in g_ if not isinstance(e, str)]
            stores_.append((U(st_.targets[0].slice), st_.value.id, conds_, st_))
    roles_ = {}
    for n_ in ast.walk(ins_[0]):
        if isinstance(n_, ast.Assign) and isinstance(n_.targets[0], ast.Tuple) and isinstance(n_.value, ast.Tuple):
            for t_, v_ in zip(n_.targets[0].elts, n_.value.elts):
                if isinstance(v_, ast.Subscript) and U(v_.value) in ("edges_child", "edges_parent"):
                    roles_[U(t_)] = U(v_.value)[6:]
    seen_ = {}
    for idx_, val_, conds_, st_ in stores_:
        role_ = roles_.get(val_)
        if role_ and val_ in idx_:
            seen_[role_] = (conds_, st_)
    for role_ in ("child", "parent"):
        if role_ not in seen_:
            res.bad("R29.7", f"util._relabel_mutations_node maps the inserted edge's {role_}", f"no store `map[order[{role_}]] = {role_}` in the insertion loop", repo.loc(rl_, ins_[0]))
        else:
            conds_, st_ = seen_[role_]
            res.require(not conds_, "R29.7", f"util._relabel_mutations_node maps the inserted edge's {role_}", f"`{U(st_)}` happens only when {conds_}: when a later piece of a split node enters the tree as a local root the map keeps the earlier piece, and mutations above that root stay on a node that is not in the tree", repo.loc(rl_, st_), U(st_))
    res.rule("R29.6", "_reorder_nodes takes its 'no metadata' shortcut only when the existing column *and* the new unsplit_node_id rows are empty: the emptiness test reads the concatenation that includes extra_md_dict")
    rn_ = repo.fn("util", "_reorder_nodes")
    from ..base import Defs as _Defs

    d_ = _Defs(rn_)
    tests_ = [n_ for n_ in own_nodes(rn_) if isinstance(n_, ast.If) and isinstance(n_.test, ast.Compare) and U(n_.test).replace(" ", "").startswith("len(") and U(n_.test).replace(" ", "").endswith("==0")]
    if not tests_:
        raise AnalysisError("R29.6: the empty-metadata shortcut of _reorder_nodes was not found")
    for t_ in tests_:
        arg_ = t_.test.left.args[0]
        # transitive data dependence of the tested value on definitions that precede the test
        seen_, todo_ = set(), [x.id for x in ast.walk(arg_) if isinstance(x, ast.Name)]
        while todo_:
            nm_ = todo_.pop()
            if nm_ in seen_:
                continue
            seen_.add(nm_)
            for v in d_.values(nm_):
                node_ = v if isinstance(v, ast.AST) else (v[1] if isinstance(v, tuple) and len(v) > 1 and isinstance(v[1], ast.AST) else None)
                if node_ is None or getattr(node_, "lineno", 0) >= t_.lineno:
                    continue
                todo_.extend(x.id for x in ast.walk(node_) if isinstance(x, ast.Name))
        texts_ = [U(d_.inline(arg_))]
        ok_ = "extra_md_dict" in seen_
        res.require(ok_, "R29.6", "util._reorder_nodes empty-metadata shortcut accounts for the new rows", f"`{U(t_.test)}` tests `{texts_[0][:80]}`, which does not include the rows of extra_md_dict: with an empty existing column every unsplit_node_id is silently dropped", repo.loc(rn_, t_), texts_[0][:80])
    from . import flagsrule

    res.rule("R29.5", "samples are never split: sample status is decided by the NODE_IS_SAMPLE bit or ts.samples(), never by comparing the whole flags word (samples may carry further bits, e.g. tsinfer's historical-sample bit)")
    flagsrule.run(repo, res, "R29.5", floor=2, scope=["util.split_disjoint_nodes", "util._split_disjoint_nodes", "util._reorder_nodes"])
    res.rule("R29.1", "column completeness: the node table is rebuilt by one set_columns call carrying every node column (flags, time, population, individual, metadata, metadata_offset); the per-row columns are taken from the old table through the same order index")
    res.rule("R29.2", "the split flag is OR-ed into flags exactly at split_nodes; unsplit_node_id is added to the decoded row metadata and encoded through the table's own schema; failure downgrades to a warning")
    res.rule("R29.3", "who-may-write: only edges.{parent,child}, mutations.node, the node columns, sort/build_index/compute_mutation_parents and at most one provenance record; sites, mutation sites/states, edge coordinates and sequence_length are never written")
    res.rule("R29.4", "E2 conformance of the two kernel call sites of split_disjoint_nodes")
    f = repo.fn("util", "split_disjoint_nodes")
    ro = repo.fn("util", "_reorder_nodes")
    ty = engine(repo, Typing)
    # R29.1
    sc = [n for n in own_nodes(ro) if isinstance(n, ast.Call) and isinstance(n.func, ast.Attribute) and n.func.attr == "set_columns"]
    if len(sc) != 1:
        raise AnalysisError("R29.1: expected exactly one set_columns call in _reorder_nodes")
    call = sc[0]
    kws = {k.arg: k.value for k in call.keywords}
    missing = NODE_COLUMNS - set(kws)
    res.require(not missing, "R29.1", "util._reorder_nodes set_columns carries every node column", f"columns {sorted(missing)} are omitted: tskit resets them to their defaults for every node", repo.loc(ro, call), f"{sorted(kws)}")
    params = [a.arg for a in ro.args.args]
    tab, order = params[0], params[1]
    for col in ("flags", "time", "population", "individual"):
        v = kws.get(col)
        if v is None:
            continue
        ok = isinstance(v, ast.Subscript) and U(v.value) == f"{tab}.{col}" and U(v.slice) == order
        res.require(ok, "R29.1", f"util._reorder_nodes column {col} = old {col}[{order}]", f"`{col}={U(v)}` is not the old column permuted by `{order}`", repo.loc(ro, v), U(v))
    # metadata rows go through the same order
    d = Defs(ro)
    mo = d.origins(kws["metadata"]) if "metadata" in kws else set()
    packs = [n for n in own_nodes(ro) if isinstance(n, ast.Call) and U(n.func) == "tskit.pack_arrays"]
    okmd = bool(packs) and all(isinstance(p.args[0], ast.ListComp) and U(p.args[0].generators[0].iter) == order for p in packs)
    res.require(okmd, "R29.1", f"util._reorder_nodes metadata rows are gathered through `{order}`", "metadata is not re-packed by iterating the order index", repo.loc(ro), f"{len(packs)} pack_arrays over `{order}`")
    # the caller passes the kernel's node order
    df = Defs(f)
    rc = [n for n in own_nodes(f) if isinstance(n, ast.Call) and ro in repo.resolve_call(f, n)]
    if len(rc) != 1:
        raise AnalysisError("R29.1: _reorder_nodes call not found")
    a = rc[0].args
    ok = ty.ty(f, a[0]) == "Table:nodes" and any("_split_disjoint_nodes(" in x and x.endswith("[2]") for x in df.origins(a[1]))
    res.require(ok, "R29.1", "util.split_disjoint_nodes reorders tables.nodes by the kernel's node order", f"called with ({U(a[0])}, {U(a[1])}) origins {sorted(df.origins(a[1]))}", repo.loc(f, rc[0]))
    # R29.2
    flag_ok = False
    for s, g in stmts(f):
        if isinstance(s, ast.AugAssign) and isinstance(s.op, ast.BitOr) and isinstance(s.target, ast.Subscript):
            idx_o = df.origins(s.target.slice)
            base_o = df.origins(s.target.value)
            if "NODE_SPLIT_BY_PREPROCESS" in U(s.value):
                flag_ok = any(x.endswith("[3]") and "_split_disjoint_nodes(" in x for x in idx_o) and base_o == {"tables.nodes.flags"}
                res.require(flag_ok, "R29.2", "util.split_disjoint_nodes ORs the split flag exactly at split_nodes", f"`{U(s)}`: index origins {sorted(idx_o)}, base {sorted(base_o)}", repo.loc(f, s), U(s))
    if not flag_ok:
        res.bad("R29.2", "util.split_disjoint_nodes ORs the split flag exactly at split_nodes", "no `flags[split_nodes] |= NODE_SPLIT_BY_PREPROCESS` found", repo.loc(f))
    tries = [s for s, g in stmts(f) if isinstance(s, ast.Try)]
    md_ok = False
    for t in tries:
        body = " ".join(U(x) for x in t.body)
        if "metadata_key" in body and "validate_and_encode_row" in body and "tables.nodes.metadata_schema" in body:
            h_ok = all(all(isinstance(x, ast.Expr) and U(x.value).startswith("logger.warning") for x in h.body) for h in t.handlers)
            types = " ".join(U(h.type) for h in t.handlers if h.type is not None)
            md_ok = h_ok and "MetadataValidationError" in types
    res.require(md_ok, "R29.2", "util.split_disjoint_nodes encodes unsplit_node_id through the table's schema, failure is a warning", "metadata update is not in a try whose handler only warns", repo.loc(f))
    # R29.3
    n_w = 0
    for g in (f, ro):
        name = f"{g._mod}.{g._qual}"
        for bt, attr, kind, node in ty.accesses(g):
            if not (bt == "Tables" or bt.startswith("Table:")):
                continue
            c = classify(bt, attr)
            if c is None:
                raise AnalysisError(f"E4: accessor {bt}.{attr} in {name} is not classified")
            if kind == "store" or c == "mutator":
                n_w += 1
                res.require((bt, attr, kind) in ALLOWED_WRITES, "R29.3", f"{name} writes {bt}.{attr}", f"`{U(node)}` is not in the allow-list for node splitting", repo.loc(g, node), "allow-listed")
    res.floor("table_writes_in_split_disjoint_nodes", n_w, 7)
    provs = [n for n in own_nodes(f) if isinstance(n, ast.Call) and U(n.func) == "provenance.record_provenance"]
    res.require(len(provs) <= 1, "R29.3", "util.split_disjoint_nodes records at most one provenance entry", f"{len(provs)} record_provenance calls", repo.loc(f))
    # R29.4
    e2_rule(repo, res, "R29.4", lambda caller, callee: caller is f, min_sites=2)


VARIANTS = [
    dict(name="parent-map-only-if-unset", mod="util", expect="fire", rule="R29.7", old="            nodes_map[nodes_order[c]] = c\n            nodes_map[nodes_order[p]] = p\n", new="            nodes_map[nodes_order[c]] = c\n            if nodes_map[nodes_order[p]] == tskit.NULL:\n                nodes_map[nodes_order[p]] = p\n"),
    dict(name="empty-shortcut-ignores-new-rows", mod="util", expect="fire", rule="R29.6", old="    md = np.concatenate(data)\n    if len(md) == 0:  # Common edge case: no metadata", new="    md = np.concatenate(data)\n    if len(node_table.metadata) == 0:  # Common edge case: no metadata"),dict(name="flags-equality-in-split", mod="util", expect="fire", rule="R29.5", old="    node_is_sample = np.bitwise_and(ts.nodes_flags, tskit.NODE_IS_SAMPLE).astype(bool)", new="    node_is_sample = ts.nodes_flags == tskit.NODE_IS_SAMPLE")] + [
    dict(name="individual-column-dropped", mod="util", expect="fire", rule="R29.1", old="        individual=node_table.individual[order],\n", new=""),
    dict(name="population-not-permuted", mod="util", expect="fire", rule="R29.1", old="        population=node_table.population[order],", new="        population=node_table.population[: len(order)],"),
    dict(name="flag-on-all-copies", mod="util", expect="fire", rule="R29.2", old="    flags[split_nodes] |= tsdate.NODE_SPLIT_BY_PREPROCESS", new="    flags[nodes_order] |= tsdate.NODE_SPLIT_BY_PREPROCESS"),
    dict(name="mutation-sites-written", mod="util", expect="fire", rule="R29.3", old="    tables.mutations.node = mutations_node\n    tables.sort()\n    tables.build_index()\n    tables.compute_mutation_parents()\n    if record_provenance:\n        provenance.record_provenance(\n            tables,\n            \"split_disjoint_nodes\",",
         new="    tables.mutations.node = mutations_node\n    tables.mutations.site = tables.mutations.site\n    tables.sort()\n    tables.build_index()\n    tables.compute_mutation_parents()\n    if record_provenance:\n        provenance.record_provenance(\n            tables,\n            \"split_disjoint_nodes\","),
    dict(name="edges-left-written", mod="util", expect="fire", rule="R29.3", old="    tables.edges.child = edges_child\n", new="    tables.edges.child = edges_child\n    tables.edges.left = tables.edges.left\n"),
    dict(name="kernel-arg-float-flags", mod="util", expect="fire", rule="R29.4", old="        ts.edges_right,\n        node_is_sample,\n    )", new="        ts.edges_right,\n        ts.nodes_flags,\n    )"),
    dict(name="twin-warning-text", mod="util", expect="silent", old="        logger.warning(f\"Could not set '{metadata_key}' on node metadata\")", new="        logger.warning(f\"Cannot set '{metadata_key}' in node metadata\")"),
]
