"""C30 -- unary-node detection: wiring clause only."""

import ast

from ..base import AnalysisError, Defs, U, bind_args, bool_guards, own_nodes, stmts


def origin_chain(repo, res, hops):
    """each hop: (mod, qual, callee name suffix, keyword or positional index, expected origin set)"""
    for mod, q, callee, key, want in hops:
        f = repo.fn(mod, q)
        d = Defs(f)
        hit = False
        for c in own_nodes(f):
            if isinstance(c, ast.Call) and (U(c.func).split(".")[-1] == callee or U(d.inline(c.func)).replace(" ", "") == callee.replace(" ", "")):
                val = None
                if isinstance(key, int):
                    val = c.args[key] if len(c.args) > key else None
                else:
                    val = next((k.value for k in c.keywords if k.arg == key), None)
                if val is None:
                    if any(k.arg is None for k in c.keywords):
                        res.ok("R30.1", f"{mod}.{q} forwards allow_unary to {callee}", "forwarded inside **kwargs", repo.loc(f, c))
                        hit = True
                    continue
                hit = True
                o = d.origins(val)
                res.require(o == want, "R30.1", f"{mod}.{q} forwards allow_unary to {callee}", f"argument originates from {sorted(o)}, expected {sorted(want)}", repo.loc(f, c), f"{sorted(o)}")
        if not hit:
            res.bad("R30.1", f"{mod}.{q} forwards allow_unary to {callee}", "allow_unary is not passed: the callee's default is used regardless of the caller's choice", repo.loc(f))


def sweep_exhaustive(repo, res, rid, sweeps):
    """an edge sweep must continue until *both* the insertion and the removal index are exhausted
    (removals of the last tree come after the last insertion): its loop test is the disjunction of
    the two bounds, never their conjunction"""
    n = 0
    for mod, q in sweeps:
        if not repo.has_fn(mod, q):
            continue
        f = repo.fn(mod, q)
        inner = [w for w in own_nodes(f) if isinstance(w, ast.While) and isinstance(w.test, ast.BoolOp) and ("remove" in U(w.test) or "insert" in U(w.test))]
        if len(inner) < 2:
            continue
        idx = set()
        for w in inner:
            for c in ast.walk(w.test):
                if isinstance(c, ast.Compare) and isinstance(c.left, ast.Name) and isinstance(c.ops[0], ast.Lt):
                    idx.add((c.left.id, U(c.comparators[0])))
        outer = [w for w in own_nodes(f) if isinstance(w, ast.While) and any(i is x for i in inner for x in ast.walk(w)) and w not in inner]
        if not outer:
            continue
        n += 1
        t = outer[0].test
        ok = False
        if isinstance(t, ast.BoolOp) and isinstance(t.op, ast.Or):
            have = {(c.left.id, U(c.comparators[0])) for c in t.values if isinstance(c, ast.Compare) and isinstance(c.left, ast.Name) and isinstance(c.ops[0], ast.Lt)}
            ok = have == idx
        elif isinstance(t, ast.Compare) and not any(isinstance(x, ast.Name) and (x.id, ) in {(i,) for i, _ in idx} for x in ast.walk(t)):
            ok = True  # driven by the coordinate (left < sequence_length): runs to the end of the sequence
        res.require(ok, rid, f"{mod}.{q} sweep runs until insertions and removals are both exhausted", f"outer loop test `{U(t)}` stops as soon as one index is exhausted: edge removals to the right of the last insertion are never processed, so nodes that become unary there are not seen", repo.loc(f, outer[0]), U(t))
    if n == 0:
        raise AnalysisError(f"{rid}: no edge sweep found")


def run(repo, res):
    res.rule("R30.2", "exhaustiveness of the detectors' traversals: the sweep of _contains_unary_nodes continues until both edge insertions and removals are exhausted; every consumer of edge_diffs() that derives the set of affected parents reads both edges_out and edges_in (a node becomes unary by losing a child as well as by gaining its first)")
    sweep_exhaustive(repo, res, "R30.2", [("util", "_contains_unary_nodes")])
    n_d = 0
    for m_, q_, f_ in repo.all_funcs():
        if m_ not in ("prior", "util", "phasing") or not any(isinstance(c, ast.Call) and U(c.func).endswith(".edge_diffs") for c in own_nodes(f_)):
            continue
        attrs = {a.attr for a in own_nodes(f_) if isinstance(a, ast.Attribute) and a.attr in ("edges_in", "edges_out")}
        # tuple-unpacked diffs: (interval, edges_out, edges_in)
        unpack = any(isinstance(n_, (ast.For,)) and isinstance(n_.target, ast.Tuple) and len(n_.target.elts) == 3 for n_ in own_nodes(f_)) or any(isinstance(n_, ast.Assign) and isinstance(n_.targets[0], ast.Tuple) and len(n_.targets[0].elts) == 3 and "next(" in U(n_.value) for n_ in own_nodes(f_))
        n_d += 1
        res.require(attrs == {"edges_in", "edges_out"} or unpack, "R30.2", f"{m_}.{q_} reads both directions of every edge diff", f"only {sorted(attrs)} is read: parents that lose a child (edges_out) / gain one (edges_in) at a breakpoint are not re-examined", repo.loc(f_), f"{sorted(attrs) or 'unpacked'}")
    res.floor("edge_diff_consumers", n_d, 2)
    res.rule("R30.3", "the span-counting pass's own unary finding (self.has_unary) raises ValueError unless allow_unary: the second detector cannot be silenced by the first one's gaps")
    fp_ = repo.fn("prior", "SpansBySamples.first_pass")
    hit_ = [(st, g) for st, g in stmts(fp_) if isinstance(st, ast.Raise) and "ValueError" in U(st) and any(pol and U(e) == "self.has_unary" for e, pol in bool_guards(g))]
    ok_ = len(hit_) == 1 and any((not pol) and U(e) == "allow_unary" or (pol and U(e).replace(" ", "") == "notallow_unary") for e, pol in bool_guards(hit_[0][1]))
    res.require(ok_, "R30.3", "prior.SpansBySamples.first_pass raises ValueError when has_unary and not allow_unary", "no `raise ValueError` under `self.has_unary and not allow_unary`: unary nodes found while counting spans only produce a warning", repo.loc(fp_))
    res.rule("R30.1", "allow_unary reaches ExpectationPropagation._check_valid_inputs and SpansBySamples.__init__ unchanged from the API (through **kwargs, self.allow_unary and the positional call of MixturePrior); each detector call is controlled only by `not allow_unary`, its positive result raises ValueError before any inference; contains_unary_nodes masks samples, has_locally_unary_nodes does not")
    origin_chain(repo, res, [
        ("core", "date", "estimation_methods[method]", "allow_unary", {"<param allow_unary>"}),
        ("core", "variational_gamma", "VariationalGammaMethod", "allow_unary", {"<param allow_unary>"}),
        ("core", "VariationalGammaMethod.run", "ExpectationPropagation", "allow_unary", {"self.allow_unary"}),
        ("variational", "ExpectationPropagation.__init__", "_check_valid_inputs", 2, {"<param allow_unary>"}),
        ("core", "EstimationMethod.__init__", "getattr(prior, self.prior_grid_func_name)", "allow_unary", {"self.allow_unary"}),
        ("prior", "prior_grid", "MixturePrior", 4, {"<param allow_unary>"}),
        ("prior", "MixturePrior.__init__", "SpansBySamples", "allow_unary", {"<param allow_unary>"}),
    ])
    # date() passes the keyword to the registry call
    init = repo.fn("core", "EstimationMethod.__init__")
    st = [s for s, g in stmts(init) if isinstance(s, ast.Assign) and U(s.targets[0]) == "self.allow_unary"]
    ok = len(st) == 1 and U(st[0].value).replace(" ", "") == "Falseifallow_unaryisNoneelseallow_unary"
    res.require(ok, "R30.1", "core.EstimationMethod.__init__ self.allow_unary = allow_unary (default False)", f"`{U(st[0].value) if st else None}`", repo.loc(init))
    mp_sig = [a.arg for a in repo.fn("prior", "MixturePrior.__init__").args.args]
    res.require(len(mp_sig) > 5 and mp_sig[5] == "allow_unary", "R30.1", "prior.MixturePrior.__init__ fifth positional parameter is allow_unary", f"signature {mp_sig}", repo.loc(repo.fn("prior", "MixturePrior.__init__")))
    # detectors
    cv = repo.fn("variational", "ExpectationPropagation._check_valid_inputs")
    hit = [s for s, g in stmts(cv) if isinstance(s, ast.If) and "contains_unary_nodes" in U(s.test)]
    ok = len(hit) == 1 and U(hit[0].test).replace(" ", "") == "notallow_unaryandcontains_unary_nodes(ts)" and isinstance(hit[0].body[0], ast.Raise) and U(hit[0].body[0].exc.func) == "ValueError"
    res.require(ok, "R30.1", "variational._check_valid_inputs raises ValueError iff not allow_unary and contains_unary_nodes(ts)", f"`{U(hit[0].test) if hit else None}`", repo.loc(cv))
    epi = repo.fn("variational", "ExpectationPropagation.__init__")
    first_call = next((s for s in epi.body if isinstance(s, ast.Expr) and isinstance(s.value, ast.Call)), None)
    res.require(first_call is not None and U(first_call.value.func) == "self._check_valid_inputs", "R30.1", "variational.ExpectationPropagation.__init__ validates before any other work", "validation is not the first statement", repo.loc(epi))
    cu = repo.fn("util", "contains_unary_nodes")
    dflt = cu.args.defaults
    ok = len(dflt) == 1 and U(dflt[0]) == "True" and any(isinstance(s, ast.If) and U(s.test) == "skip_samples" and "nodes_mask[list(ts.samples())] = True" in U(s) for s in cu.body)
    res.require(ok, "R30.1", "util.contains_unary_nodes masks sample nodes by default", "sample mask default differs", repo.loc(cu))
    sb = repo.fn("prior", "SpansBySamples.__init__")
    hit = [s for s, g in stmts(sb) if isinstance(s, ast.If) and U(s.test).replace(" ", "") == "has_locally_unary_nodes(self.ts)"]
    ok = len(hit) == 1 and isinstance(hit[0].body[0], ast.Raise) and U(hit[0].body[0].exc.func) == "ValueError"
    if ok:
        g = [g for s, g in stmts(sb) if s is hit[0]][0]
        ok = [U(e).replace(" ", "") for e, pol in bool_guards(g) if pol] == ["notallow_unary"]
        before = [c for c in own_nodes(sb) if isinstance(c, ast.Call) and U(c.func) == "self.first_pass"]
        ok = ok and bool(before) and hit[0].lineno < before[0].lineno
    res.require(ok, "R30.1", "prior.SpansBySamples.__init__ raises ValueError iff not allow_unary and has_locally_unary_nodes(ts), before counting spans", "detector call / guard differs", repo.loc(sb))
    hl = repo.fn("prior", "has_locally_unary_nodes")
    res.require("samples" not in U(hl) and "num_children_array" in U(hl), "R30.1", "prior.has_locally_unary_nodes applies no sample mask", "a mask was introduced", repo.loc(hl))


VARIANTS = [
    dict(name="sweep-stops-at-last-insertion", mod="util", expect="fire", rule="R30.2", old="    a, b = 0, 0\n    while a < num_edges or b < num_edges:\n        check = set()", new="    a, b = 0, 0\n    while a < num_edges and b < num_edges:\n        check = set()"),
    dict(name="diff-reads-insertions-only", mod="prior", expect="fire", rule="R30.2", old="        changed = {e.parent for edges in (ediff.edges_out, ediff.edges_in) for e in edges}", new="        changed = {e.parent for e in ediff.edges_in}"),
    dict(name="backup-detector-only-warns", mod="prior", expect="fire", rule="R30.3", old="            else:\n                raise ValueError(\n                    \"The input tree sequence has unary nodes: tsdate currently \"\n                    \"requires these to be removed using `simplify(keep_unary=False)`\"\n                )\n        return node_spans", new="        return node_spans"),
    dict(name="ep-ignores-flag", mod="core", expect="fire", rule="R30.1", old="            allow_unary=self.allow_unary,\n            singletons_phased=singletons_phased,", new="            allow_unary=True,\n            singletons_phased=singletons_phased,"),
    dict(name="prior-flag-dropped", mod="core", expect="fire", rule="R30.1", old="                    approximate_priors=approx,\n                    allow_unary=self.allow_unary,\n", new="                    approximate_priors=approx,\n"),
    dict(name="positional-shift", mod="prior", expect="fire", rule="R30.1", old="        prior_distribution,\n        allow_unary,\n        progress,\n    )\n    return mixture_prior.make_discretised_prior(population_size, timepoints)", new="        prior_distribution,\n        progress,\n        allow_unary,\n    )\n    return mixture_prior.make_discretised_prior(population_size, timepoints)"),
    dict(name="detector-unconditional", mod="variational", expect="fire", rule="R30.1", old="        if not allow_unary and contains_unary_nodes(ts):", new="        if contains_unary_nodes(ts):"),
    dict(name="detector-inverted", mod="prior", expect="fire", rule="R30.1", old="        if not allow_unary:\n            if has_locally_unary_nodes(self.ts):", new="        if allow_unary:\n            if has_locally_unary_nodes(self.ts):"),
    dict(name="samples-not-masked", mod="util", expect="fire", rule="R30.1", old="def contains_unary_nodes(ts, skip_samples=True):", new="def contains_unary_nodes(ts, skip_samples=False):"),
    dict(name="assert-instead-of-valueerror", mod="variational", expect="fire", rule="R30.1", old="        if not allow_unary and contains_unary_nodes(ts):\n            raise ValueError(\"Tree sequence contains unary nodes, simplify first\")", new="        if not allow_unary and contains_unary_nodes(ts):\n            raise RuntimeError(\"Tree sequence contains unary nodes, simplify first\")"),
]
