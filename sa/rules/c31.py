"""C31 -- site-time estimates: exhaustiveness / wiring clauses."""

import ast

from ..base import AnalysisError, Defs, U, bool_guards, own_nodes, stmts, walk_guarded


def run(repo, res):
    from . import sampleorder

    res.rule("R31.3", "sample nodes are identified by ts.samples() / the NODE_IS_SAMPLE bit, never by position in the node table: num_samples is used as a count only (no slice bound, no id range, no ordering comparison with a node id)")
    sampleorder.run(repo, res, "R31.3", floor=0, scope=["util.nodes_time_unconstrained", "util.sites_time_from_ts", "util.add_sampledata_times"])
    from . import nullidx

    res.rule("R31.2", "above a root the child's age is used: the parent id returned by tree.parent() is tested against tskit.NULL before it indexes the node times (numpy would read the last node's time for -1)")
    nullidx.run(repo, res, "R31.2", floor=1, scope=["util.sites_time_from_ts", "util.nodes_time_unconstrained"])
    res.rule("R31.1", "the set of accepted node_selection strings equals the set handled by the dispatch chain and every handled branch binds the age from the documented nodes (child; parent; (child+parent)/2; sqrt(child*parent); child above a root); the per-site maximum, the min_time floor and the NaN default are on every path; unconstrained selects nodes_time_unconstrained, which overwrites only non-sample entries with the mn metadata; add_sampledata_times takes an element-wise maximum")
    f = repo.fn("util", "sites_time_from_ts")
    # accepted strings
    acc = None
    for s, g in stmts(f):
        if isinstance(s, ast.If) and isinstance(s.test, ast.Compare) and isinstance(s.test.ops[0], ast.NotIn) and U(s.test.left) == "node_selection" and isinstance(s.body[0], ast.Raise):
            acc = sorted(x.value for x in s.test.comparators[0].elts)
    if acc is None:
        raise AnalysisError("R31.1: validation of node_selection not found")
    # dispatch chain
    handled = {}
    for s, g in stmts(f):
        if isinstance(s, ast.Assign) and U(s.targets[0]) == "age":
            conds = [(U(e), pol) for e, pol in bool_guards(g)]
            keys = []
            for t, pol in conds:
                if pol:
                    for m in ast.walk(ast.parse(t, mode="eval")):
                        if isinstance(m, ast.Compare) and U(m.left) == "node_selection" and isinstance(m.ops[0], ast.Eq):
                            keys.append(m.comparators[0].value)
            root_case = any(pol and "parent_node == tskit.NULL" in t for t, pol in conds)
            for k in keys or ["?"]:
                handled.setdefault(k, []).append((U(s.value).replace(" ", ""), root_case, s))
    got = sorted(k for k in handled if k != "?")
    res.require(got == acc, "R31.1", "util.sites_time_from_ts accepted node_selection values = handled values", f"accepted {acc} but the dispatch handles {got}: an accepted value would leave `age` unbound or stale", repo.loc(f), f"{acc}")
    want = {
        "child": "nodes_time[mutation.node]",
        "parent": "parent_age",
        "arithmetic": "(nodes_time[mutation.node]+parent_age)/2",
        "geometric": "np.sqrt(nodes_time[mutation.node]*parent_age)",
    }
    for k, w in want.items():
        vals = [v for v, rc, s in handled.get(k, [])]
        res.require(vals == [w], "R31.1", f"util.sites_time_from_ts node_selection='{k}' uses the documented summary", f"age is {vals}, documented {w}", repo.loc(f), w)
    d = Defs(f)
    pa = d.single("parent_age")
    pn = d.single("parent_node")
    res.require(pa is not None and U(pa) == "nodes_time[parent_node]" and pn is not None and U(pn) == "tree.parent(mutation.node)", "R31.1", "util.sites_time_from_ts parent age is the time of the node above the mutation", f"parent_age={U(pa)}, parent_node={U(pn)}", repo.loc(f))
    # child age above a root: the `child` branch test includes the root case
    t0 = [s for s, g in stmts(f) if isinstance(s, ast.If) and "parent_node == tskit.NULL" in U(s.test)]
    ok = len(t0) == 1 and U(t0[0].test).replace(" ", "").replace('"', "'") == "node_selection=='child'orparent_node==tskit.NULL"
    res.require(ok, "R31.1", "util.sites_time_from_ts uses the child's age above a root for every selection", f"test `{U(t0[0].test) if t0 else None}`", repo.loc(f))
    # per-site maximum, floor, NaN default
    mx = [s for s, g in stmts(f) if isinstance(s, ast.If) and U(s.test).replace(" ", "") == "np.isnan(sites_time[site.id])orsites_time[site.id]<age" and U(s.body[0]).replace(" ", "") == "sites_time[site.id]=age"]
    fl = [s for s, g in stmts(f) if isinstance(s, ast.If) and U(s.test).replace(" ", "") == "sites_time[site.id]<min_time" and U(s.body[0]).replace(" ", "") == "sites_time[site.id]=min_time"]
    init = d.single("sites_time")
    res.require(len(mx) == 1, "R31.1", "util.sites_time_from_ts keeps the largest age over the site's mutations", "max update differs", repo.loc(f))
    ok = len(fl) == 1
    if ok:
        # the floor is applied per site after its mutations (inside the site loop, outside the mutation loop)
        g = [g for s, g in stmts(f) if s is fl[0]][0]
        loops = [U(n.target) for e, n in g if e == "loop"]
        ok = loops[-1:] == ["site"]
    res.require(ok, "R31.1", "util.sites_time_from_ts raises each site time to at least min_time after its mutations", "floor missing or misplaced", repo.loc(f))
    res.require(init is not None and U(init).replace(" ", "") == "np.full(tree_sequence.num_sites,np.nan)", "R31.1", "util.sites_time_from_ts sites without mutations stay NaN", f"initialised as `{U(init)}`", repo.loc(f))
    # unconstrained
    un = [(s, g) for s, g in stmts(f) if isinstance(s, ast.Assign) and U(s.targets[0]) == "nodes_time"]
    srcs = {}
    for s, g in un:
        pol = [pol for e, pol in bool_guards(g) if U(e) == "unconstrained"]
        srcs[pol[0] if pol else None] = U(s.value)
    res.require(srcs == {True: "nodes_time_unconstrained(tree_sequence)", False: "tree_sequence.nodes_time"}, "R31.1", "util.sites_time_from_ts unconstrained selects the metadata means, otherwise node times", f"{srcs}", repo.loc(f))
    nu = repo.fn("util", "nodes_time_unconstrained")
    st = [(s, g) for s, g in stmts(nu) if isinstance(s, ast.Assign) and isinstance(s.targets[0], ast.Subscript) and U(s.targets[0].value) == "nodes_time"]
    ok = len(st) == 1 and any(pol and U(e).replace(" ", "") == "indexnotintree_sequence.samples()" for e, pol in bool_guards(st[0][1])) and "['mn']" in U(st[0][0].value).replace('"', "'")
    ini = Defs(nu).single("nodes_time")
    ok = ok and ini is not None and U(ini) == "tree_sequence.nodes_time.copy()"
    res.require(ok, "R31.1", "util.nodes_time_unconstrained overwrites only non-sample entries with the mn metadata", "overwrite differs", repo.loc(nu))
    ad = repo.fn("util", "add_sampledata_times")
    dd = Defs(ad)
    vals = [v for v in dd.values("sites_time") if isinstance(v, ast.AST)]
    ok = False
    if len(vals) == 1:
        v = dd.inline(vals[0])
        if isinstance(v, ast.Call) and U(v.func) == "np.maximum" and len(v.args) == 2 and not v.keywords:
            ok = sorted(U(a).replace(" ", "") for a in v.args) == ["samples.min_site_times(individuals_only=True)", "sites_time"]
    res.require(ok, "R31.1", "util.add_sampledata_times takes the element-wise maximum of estimate and historical-sample bound", "combination differs", repo.loc(ad))


VARIANTS = [dict(v, rule="R31.3") for v in __import__("sa.rules.sampleorder", fromlist=["VARIANTS"]).VARIANTS if v["mod"] == "util"] + [dict(name="root-parent-unguarded", mod="util", expect="fire", rule="R31.2", old="                if node_selection == \"child\" or parent_node == tskit.NULL:", new="                if node_selection == \"child\":")] + [
    dict(name="choice-unhandled", mod="util", expect="fire", rule="R31.1", old='    if node_selection not in ["arithmetic", "geometric", "child", "parent"]:', new='    if node_selection not in ["arithmetic", "geometric", "child", "parent", "harmonic"]:'),
    dict(name="branch-deleted", mod="util", expect="fire", rule="R31.1", old='                    elif node_selection == "geometric":\n                        age = np.sqrt(nodes_time[mutation.node] * parent_age)\n', new=""),
    dict(name="arithmetic-not-mean", mod="util", expect="fire", rule="R31.1", old="                        age = (nodes_time[mutation.node] + parent_age) / 2", new="                        age = (nodes_time[mutation.node] + parent_age)"),
    dict(name="root-case-dropped", mod="util", expect="fire", rule="R31.1", old='                if node_selection == "child" or parent_node == tskit.NULL:', new='                if node_selection == "child":'),
    dict(name="min-not-max", mod="util", expect="fire", rule="R31.1", old="                if np.isnan(sites_time[site.id]) or sites_time[site.id] < age:", new="                if np.isnan(sites_time[site.id]) or sites_time[site.id] > age:"),
    dict(name="floor-inside-mutation-loop", mod="util", expect="fire", rule="R31.1", old="                    sites_time[site.id] = age\n            if sites_time[site.id] < min_time:\n                sites_time[site.id] = min_time", new="                    sites_time[site.id] = age\n                if sites_time[site.id] < min_time:\n                    sites_time[site.id] = min_time"),
    dict(name="zero-default", mod="util", expect="fire", rule="R31.1", old="    sites_time = np.full(tree_sequence.num_sites, np.nan)", new="    sites_time = np.zeros(tree_sequence.num_sites)"),
    dict(name="samples-overwritten", mod="util", expect="fire", rule="R31.1", old="        if index not in tree_sequence.samples():\n            try:", new="        if True:\n            try:"),
    dict(name="sampledata-minimum", mod="util", expect="fire", rule="R31.1", old="    sites_time = np.maximum(sites_time, sites_bound)", new="    sites_time = np.minimum(sites_time, sites_bound)"),
    dict(name="twin-message", mod="util", expect="silent", old="            \"The node_selection parameter must be \"", new="            \"node_selection must be \""),
]
