"""C32 -- time metadata writing follows the set_metadata policy (finite abstract interpretation)."""

import ast

from ..base import AnalysisError, U, own_nodes
from ..paths import enum_paths


def fold_for(value):
    def ev(e):
        if isinstance(e, ast.BoolOp):
            vals = [ev(v) for v in e.values]
            if isinstance(e.op, ast.Or):
                if any(v is True for v in vals):
                    return True
                if all(v is False for v in vals):
                    return False
                return None
            if any(v is False for v in vals):
                return False
            if all(v is True for v in vals):
                return True
            return None
        if isinstance(e, ast.UnaryOp) and isinstance(e.op, ast.Not):
            v = ev(e.operand)
            return None if v is None else (not v)
        t = U(e).replace(" ", "")
        if t == "self.set_metadata":
            return bool(value)
        if t == "self.set_metadataisFalse":
            return value is False
        if t == "self.set_metadataisTrue":
            return value is True
        if t == "self.set_metadataisNone":
            return value is None
        if t == "self.set_metadataisnotNone":
            return value is not None
        return None

    return lambda test, path: ev(test)


def effects(path):
    out = []
    for ev in path.events:
        if isinstance(ev, tuple):
            if ev[0] == "exc":
                out.append("FAULT")
            continue
        for c in sorted([n for n in ast.walk(ev) if isinstance(n, ast.Call)], key=lambda c: (c.end_lineno, c.end_col_offset)):
            fn = U(c.func)
            if fn.endswith(".packset_metadata"):
                out.append("write")
            elif fn.endswith(".drop_metadata"):
                out.append("drop")
            elif fn.startswith("logger.warning"):
                out.append("warn")
        if isinstance(ev, ast.Assign) and any(U(t).endswith(".metadata_schema") for t in ev.targets):
            out.append("schema:=" + U(ev.value))
    return out


def run(repo, res):
    from . import wiring

    res.rule("R32.3", "set_metadata reaches the metadata policy from every entry point: no wrapper or constructor on the way accepts it without reading it")
    wiring.run(repo, res, "R32.3", only={"set_metadata"})
    res.rule("R32.1", "finite abstract interpretation of set_time_metadata with set_metadata folded to False / None / True and every other condition free: False (or no variance) -> no table effect; None -> never drop_metadata, on failure with existing metadata or schema: warning and no write, without either: default schema then write; True -> every non-faulting path ends in a write, preceded by drop_metadata and the default schema iff the first attempt failed with existing metadata or schema")
    res.rule("R32.2", "the row builder updates every row with both keys mn and vr and encodes through the table's own schema (existing fields kept)")
    f = repo.fn("core", "EstimationMethod.set_time_metadata")
    body = [s for s in f.body if not isinstance(s, ast.FunctionDef)]
    total = 0
    for value in (False, None, True):
        paths = enum_paths(body, fold=fold_for(value))
        for p in paths:
            total += 1
            eff = effects(p)
            conds = " and ".join(("" if e[2] else "not ") + U(e[1])[:40] for e in p.conds()) or "always"
            cons = f"core.EstimationMethod.set_time_metadata set_metadata={value} path[{conds}]"
            loc = repo.loc(f, p.node) if p.node is not None else repo.loc(f)
            var_none = any(U(e[1]).replace(" ", "").endswith("varisNone") and e[2] for e in p.conds())
            table_eff = [e for e in eff if e in ("write", "drop") or e.startswith("schema:=")]
            existing = None
            for e in p.conds():
                t = U(e[1]).replace(" ", "")
                if "len(table.metadata)>0" in t and "schemaisnotNone" in t:
                    existing = e[2]
            problems = []
            if value is False or var_none:
                if table_eff:
                    problems.append(f"table effects {table_eff} although nothing should be written")
            elif "FAULT" not in eff:
                if eff.count("write") != 1 or "drop" in eff:
                    problems.append(f"effects {eff}: expected exactly one write and nothing else")
            else:
                after = eff[eff.index("FAULT") + 1 :]
                if existing is None:
                    problems.append("handler does not test for existing metadata / schema")
                elif value is None:
                    if "drop" in after:
                        problems.append("set_metadata=None must never drop existing metadata")
                    if existing and (("write" in after) or any(x.startswith("schema:=") for x in after) or "warn" not in after):
                        problems.append(f"with existing metadata/schema the table must be left untouched and a warning logged; effects after the failure: {after}")
                    if not existing and [x for x in after if x != "warn"] != ["schema:=default_schema", "write"]:
                        problems.append(f"without metadata and schema the default schema must be installed and the rows written; effects: {after}")
                else:  # True
                    core = [x for x in after if x != "warn"]
                    want = (["drop"] if existing else []) + ["schema:=default_schema", "write"]
                    if core != want:
                        problems.append(f"effects after the failed attempt are {core}, expected {want}")
            res.require(not problems, "R32.1", cons, "; ".join(problems), loc, " ".join(eff) or "no effect")
    res.floor("abstract_paths", total, 8)
    # R32.2 row builder
    rb = repo.mods["core"].funcs.get("EstimationMethod.set_time_metadata._time_md_array")
    if rb is None:
        raise AnalysisError("R32.2: row builder not found")
    t = U(rb).replace(" ", "")
    loops = [n for n in own_nodes(rb) if isinstance(n, ast.For)]
    ok = False
    detail = "row loop not found"
    if loops:
        lp = loops[-1]
        zipped = isinstance(lp.iter, ast.Call) and U(lp.iter.func) == "zip" and len(lp.iter.args) == 3
        upd = [c for c in ast.walk(lp) if isinstance(c, ast.Call) and U(c.func).endswith(".update")]
        keys = set()
        for c in upd:
            for k in ast.walk(c):
                if isinstance(k, ast.Constant) and k.value in ("mn", "vr"):
                    keys.add(k.value)
        enc = [c for c in ast.walk(lp) if isinstance(c, ast.Call) and U(c.func).endswith("validate_and_encode_row")]
        schema_src = [n for n in own_nodes(rb) if isinstance(n, ast.Assign) and U(n.targets[0]) == "schema" and U(n.value) == "table.metadata_schema"]
        guarded = not any(isinstance(p_, ast.If) for p_ in ast.walk(lp))
        ok = zipped and keys == {"mn", "vr"} and len(enc) == 1 and U(enc[0].func) == "schema.validate_and_encode_row" and bool(schema_src) and guarded
        detail = f"zip over rows: {zipped}, keys {sorted(keys)}, encoder calls {len(enc)}, unconditional: {guarded}"
    res.require(ok, "R32.2", "core.EstimationMethod.set_time_metadata row builder writes mn and vr into every row through the table's schema", detail, repo.loc(rb), detail)
    existing = "row.metadataforrowintable" in t and "{}for_inrange(table.num_rows)" in t
    # the empty-dict start is taken only when the table holds no metadata bytes at all
    sel = [n for n in own_nodes(rb) if isinstance(n, ast.If) and "row.metadata" in U(n).replace(" ", "") and ("{}" in U(n).replace(" ", "") or "dict()" in U(n).replace(" ", ""))]
    if sel:
        test = sel[0].test
        decode_in_body = "row.metadata" in "".join(U(x) for x in sel[0].body)
        tt = U(test).replace(" ", "")
        has_md = ("len(table.metadata)>0", "len(table.metadata)!=0", "table.metadata.size>0", "len(table.metadata)")
        no_md = ("len(table.metadata)==0", "notlen(table.metadata)", "table.metadata.size==0")
        only_emptiness = (decode_in_body and tt in has_md) or ((not decode_in_body) and tt in no_md)
        res.require(only_emptiness, "R32.2", "core.EstimationMethod.set_time_metadata existing rows are decoded whenever the table holds metadata", f"the choice between decoding the existing rows and starting from empty dicts is made by `{U(test)}`: whenever that differs from 'the table has metadata bytes', every existing field of every row is silently dropped", repo.loc(rb, sel[0]), U(test))
    else:
        res.bad("R32.2", "core.EstimationMethod.set_time_metadata existing rows are decoded whenever the table holds metadata", "the decode / empty-start selection was not found", repo.loc(rb))
    res.require(existing, "R32.2", "core.EstimationMethod.set_time_metadata row builder starts from each row's decoded metadata (or {} when the table has none)", "existing fields are not carried over", repo.loc(rb))


_H = "            if len(table.metadata) > 0 or table.metadata_schema.schema is not None:\n                if not self.set_metadata:\n"
VARIANTS = [dict(v, rule="R32.3") for v in __import__("sa.rules.wiring", fromlist=["VARIANTS"]).VARIANTS] + [
    dict(name="none-drops-metadata", mod="core", expect="fire", rule="R32.1", old=_H, new="            if len(table.metadata) > 0 or table.metadata_schema.schema is not None:\n                if self.set_metadata is False:\n"),
    dict(name="false-still-writes", mod="core", expect="fire", rule="R32.1", old="        if self.set_metadata is False or var is None:\n            return  # no md to set", new="        if var is None:\n            return  # no md to set"),
    dict(name="true-keeps-old-metadata", mod="core", expect="fire", rule="R32.1", old="                    logger.info(f\"Clearing metadata from {table_name}\")\n                    table.drop_metadata()\n", new="                    logger.info(f\"Clearing metadata from {table_name}\")\n"),
    dict(name="none-silent-skip", mod="core", expect="fire", rule="R32.1", old="                    logger.warning(\n                        f\"Could not set time metadata on {table_name} \"\n                        f\"(force this by specifying `set_metadata=True`): {e}\"\n                    )\n                    return", new="                    return"),
    dict(name="schema-not-installed", mod="core", expect="fire", rule="R32.1", old="            table.metadata_schema = default_schema\n            table.packset_metadata(_time_md_array(table, mean, var))", new="            table.packset_metadata(_time_md_array(table, mean, var))"),
    dict(name="existing-test-and", mod="core", expect="fire", rule="R32.1", old="            if len(table.metadata) > 0 or table.metadata_schema.schema is not None:", new="            if len(table.metadata) > 0:"),
    dict(name="decode-skipped-for-own-schema", mod="core", expect="fire", rule="R32.2", old="            if len(table.metadata) > 0:\n                md_iter", new="            if len(table.metadata) > 0 and schema != default_schema:\n                md_iter"),
    dict(name="only-mn-written", mod="core", expect="fire", rule="R32.2", old='                metadata_dict.update((("mn", mn), ("vr", vr)))', new='                metadata_dict.update((("mn", mn),))'),
    dict(name="rows-conditionally-updated", mod="core", expect="fire", rule="R32.2", old='                metadata_dict.update((("mn", mn), ("vr", vr)))\n                metadata_array.append(schema.validate_and_encode_row(metadata_dict))', new='                if vr > 0:\n                    metadata_dict.update((("mn", mn), ("vr", vr)))\n                metadata_array.append(schema.validate_and_encode_row(metadata_dict))'),
    dict(name="twin-info-message", mod="core", expect="silent", old="            logger.info(f\"Setting metadata schema on {table_name}\")", new="            logger.debug(f\"Installing default schema on {table_name}\")"),
]
