"""C33 -- provenance recorded exactly once."""

import ast

from ..base import AnalysisError, Defs, U, bool_guards, own_nodes, stmts
from ..e4 import RECORDS_PROVENANCE_BY_DEFAULT, Typing
from ..paths import enum_paths
from .common import engine

TSDATE_RECORDERS = {"split_disjoint_nodes", "preprocess_ts"}


def prov_effects(repo, ty, f, path):
    """ordered provenance-recording effects on one abstract path"""
    out = []
    for c in path.calls():
        fn = U(c.func)
        rp = next((k.value for k in c.keywords if k.arg == "record_provenance"), None)
        off = rp is not None and U(rp) == "False"
        if fn.endswith("record_provenance") and fn.split(".")[-1] == "record_provenance":
            out.append(("record", c))
        elif isinstance(c.func, ast.Attribute) and c.func.attr in RECORDS_PROVENANCE_BY_DEFAULT and ty.ty(f, c.func.value) in ("TS", "Tables"):
            if not off:
                out.append((f"{c.func.attr} (records by default)", c))
        elif fn.split(".")[-1] in TSDATE_RECORDERS:
            if not off:
                out.append((f"{fn} (records unless told not to)" if rp is None else f"{fn}(record_provenance={U(rp)})", c))
    return out


def flag_fold(param, value):
    def fold(test, path):
        t = U(test).replace(" ", "")
        if t == f"{param}isNone":
            return value is None
        if t == f"{param}isnotNone":
            return value is not None
        if t == param:
            return True if value is None else bool(value)
        if t == f"not{param}":
            return False if value is None else (not value)
        return None

    return fold


def _len_expr(d, e):
    """(base text, offset) such that len(e) == len(base) + offset, for names and `x[k:]` slices"""
    if isinstance(e, ast.Name):
        v = d.single(e.id)
        if v is not None:
            return _len_expr(d, v)
        return (e.id, 0)
    if isinstance(e, ast.Subscript) and isinstance(e.slice, ast.Slice) and e.slice.upper is None and e.slice.step is None:
        lo = e.slice.lower
        k = 0 if lo is None else (lo.value if isinstance(lo, ast.Constant) and isinstance(lo.value, int) and lo.value >= 0 else None)
        if k is None:
            return None
        b = _len_expr(d, e.value)
        return None if b is None else (b[0], b[1] - k)
    if isinstance(e, ast.Call) and U(e.func) in ("list", "np.array", "np.asarray", "tuple") and len(e.args) == 1:
        return _len_expr(d, e.args[0])
    if isinstance(e, ast.Attribute):
        return (U(e), 0)
    return None


def as_dict_roundtrip(repo, res, rid):
    """the recorded population-size history must rebuild the object: as_dict emits `time_breaks`
    exactly when there is at least one break beyond the implicit leading 0, i.e. the guard of the
    store is equivalent to `len(<stored value>) > 0`"""
    from ..base import Defs, bool_guards

    f = repo.fn("demography", "PopulationSizeHistory.as_dict")
    d = Defs(f)
    st = [(x, g) for x, g in stmts(f) if isinstance(x, ast.Assign) and isinstance(x.targets[0], ast.Subscript) and "time_breaks" in U(x.targets[0].slice)]
    if len(st) != 1:
        raise AnalysisError(f"{rid}: the store of 'time_breaks' in PopulationSizeHistory.as_dict was not found")
    x, g = st[0]
    val = _len_expr(d, x.value)
    conds = [(e, pol) for e, pol in bool_guards(g)]
    ok, why = False, "guard shape not recognised"
    if val is not None and len(conds) == 1 and conds[0][1] and isinstance(conds[0][0], ast.Compare) and len(conds[0][0].ops) == 1:
        c = conds[0][0]
        l, op, r = c.left, c.ops[0], c.comparators[0]
        if isinstance(l, ast.Call) and U(l.func) == "len" and isinstance(r, ast.Constant) and isinstance(r.value, int):
            ce = _len_expr(d, l.args[0])
            if ce is not None and ce[0] == val[0]:
                # len(base) + ce_off  OP  k    must be equivalent to    len(base) + val_off > 0
                k = r.value - ce[1]  # condition: len(base) OP' k
                need = -val[1]  # len(base) > need
                if isinstance(op, ast.Gt):
                    ok = k == need
                elif isinstance(op, ast.GtE):
                    ok = k - 1 == need
                why = f"the guard holds iff len({ce[0]}) {'>' if isinstance(op, ast.Gt) else '>='} {k}, the stored list is non-empty iff len({val[0]}) > {need}"
    res.require(ok, rid, "demography.PopulationSizeHistory.as_dict emits time_breaks exactly when the history has breaks", f"`{U(x)}` under `{U(conds[0][0]) if conds else None}`: {why}; a history whose number of epochs falls in the gap is recorded without its breaks, so the provenance record does not name the parameters used and cannot rebuild the object", repo.loc(f, x), why)
    ps = [v for v in ast.walk(f) if isinstance(v, ast.Dict)]
    okp = any("population_size" in U(k_) and U(v_).replace(" ", "") in ("list(self.population_size/2)", "list(self.population_size/2.0)") for dct in ps for k_, v_ in zip(dct.keys, dct.values))
    init = repo.fn("demography", "PopulationSizeHistory.__init__")
    oki = any(isinstance(n, ast.Assign) and U(n.targets[0]) == "self.population_size" and U(n.value).replace(" ", "").startswith("2*") for n in ast.walk(init))
    res.require(okp and oki, rid, "demography.PopulationSizeHistory.as_dict halves the doubled sizes the constructor stores", "population_size is not the inverse of the constructor's `2 * population_size`", repo.loc(f))


def run(repo, res):
    res.rule("R33.5", "the recorded population_size rebuilds the history: PopulationSizeHistory.as_dict (whose result core.py stores in the record) inverts the constructor -- sizes halved, time_breaks emitted exactly when there is a break beyond the implicit 0")
    as_dict_roundtrip(repo, res, "R33.5")
    res.rule("R33.1", "path count over get_modified_ts, preprocess_ts and split_disjoint_nodes: provenance-adding effects (record_provenance, tskit operations that record by default unless passed the literal record_provenance=False, tsdate callees likewise) number exactly 1 on every returning path with recording on and 0 with recording off; the flag reaches the guard unchanged from the API")
    res.rule("R33.2", "no truncating access to the provenance table")
    res.rule("R33.3", "the recorded command is the method's own name, which equals its registry key and wrapper function; preprocessing records 'preprocess_ts'")
    res.rule("R33.4", "each run() captures all of its parameters into the record before any other local is bound")
    ty = engine(repo, Typing)
    n_paths = 0
    for mod, q, param in (("util", "preprocess_ts", "record_provenance"), ("util", "split_disjoint_nodes", "record_provenance")):
        f = repo.fn(mod, q)
        for value in (None, True, False):
            paths = [p for p in enum_paths(f, fold=flag_fold(param, value)) if p.exit == "return"]
            want = 0 if value is False else 1
            bad_seen = set()
            n_ok = 0
            for p in paths:
                n_paths += 1
                eff = prov_effects(repo, ty, f, p)
                names = tuple(e[0] for e in eff)
                if len(eff) == want:
                    n_ok += 1
                elif names not in bad_seen:
                    bad_seen.add(names)
                    conds = " and ".join(("" if e[2] else "not ") + U(e[1])[:30] for e in p.conds() if param not in U(e[1]))[:160] or "always"
                    res.bad("R33.1", f"{mod}.{q} {param}={value} records {want} provenance entries (effects {list(names)})", f"{len(eff)} recording effects on the path[{conds}]: {list(names)}", repo.loc(f, eff[-1][1] if eff else p.node))
            if n_ok:
                res.ok("R33.1", f"{mod}.{q} {param}={value} records {want} provenance entries", f"{n_ok} of {len(paths)} returning abstract paths", repo.loc(f))
    gm = repo.fn("core", "EstimationMethod.get_modified_ts")
    for value in (True, False):
        def fold(test, path, value=value):
            t = U(test).replace(" ", "")
            if t == "self.provenance_paramsisnotNone":
                return value
            if t == "self.provenance_paramsisNone":
                return not value
            return None

        for p in [p for p in enum_paths(gm, fold=fold) if p.exit == "return"]:
            n_paths += 1
            eff = prov_effects(repo, ty, gm, p)
            want = 1 if value else 0
            res.require(len(eff) == want, "R33.1", f"core.EstimationMethod.get_modified_ts recording={'on' if value else 'off'} records {want} provenance entries", f"{len(eff)} recording effects: {[e[0] for e in eff]}", repo.loc(gm, p.node), f"{[e[0] for e in eff]}")
    res.floor("provenance_paths", n_paths, 8)
    # flag wiring: provenance_params is not None <=> record_provenance
    init = repo.fn("core", "EstimationMethod.__init__")
    sts = [(s, g) for s, g in stmts(init) if isinstance(s, ast.Assign) and U(s.targets[0]) == "self.provenance_params"]
    ok = len(sts) == 2 and U(sts[0][0].value) == "None" and not [e for e, pol in bool_guards(sts[0][1]) if pol] and [U(e) for e, pol in bool_guards(sts[1][1]) if pol] == ["record_provenance"] and U(sts[1][0].value).startswith("dict(")
    dflt = any(isinstance(s, ast.If) and U(s.test) == "record_provenance is None" and U(s.body[0]) == "record_provenance = True" for s, g in stmts(init))
    res.require(ok and dflt, "R33.1", "core.EstimationMethod.__init__ provenance_params is set iff record_provenance (default on)", "the recording flag does not reach get_modified_ts unchanged", repo.loc(init))
    dt = repo.fn("core", "date")
    fw = [k for c in own_nodes(dt) if isinstance(c, ast.Call) for k in c.keywords if k.arg == "record_provenance"]
    res.require(len(fw) == 1 and U(fw[0].value) == "record_provenance", "R33.1", "core.date forwards record_provenance", "keyword not forwarded unchanged", repo.loc(dt))
    # the dating path calls nothing else that records
    for q in ("VariationalGammaMethod.run", "InsideOutsideMethod.run", "MaximizationMethod.run", "EstimationMethod.parse_result"):
        f = repo.fn("core", q)
        for p in enum_paths(f):
            eff = prov_effects(repo, ty, f, p)
            if eff:
                res.bad("R33.1", f"core.{q} records provenance itself", f"{[e[0] for e in eff]}", repo.loc(f, eff[0][1]))
    # reduce_to_contemporaneous (prior construction) must not record on the input
    rc = repo.fn("util", "reduce_to_contemporaneous")
    for p in enum_paths(rc):
        eff = prov_effects(repo, ty, rc, p)
        res.require(not eff, "R33.1", "util.reduce_to_contemporaneous simplifies without recording", f"{[e[0] for e in eff]}", repo.loc(rc))
    # R33.2
    n = 0
    for mname, q, f in repo.all_funcs():
        if mname == "evaluation":
            continue
        for bt, attr, kind, node in ty.accesses(f):
            if bt == "Table:provenances":
                n += 1
                res.require(attr == "add_row" and kind == "call", "R33.2", f"{mname}.{q} touches the provenance table only by add_row", f"`{U(node)}` ({kind})", repo.loc(f, node), "add_row")
    res.floor("provenance_table_accesses", n, 1)
    # R33.3
    reg = repo.mods["core"].consts.get("estimation_methods")
    regmap = {k.value: U(v) for k, v in zip(reg.keys, reg.values)} if isinstance(reg, ast.Dict) else {}
    for cname in ("InsideOutsideMethod", "MaximizationMethod", "VariationalGammaMethod"):
        c = repo.cls("core", cname)
        nm = next((s.value.value for s in c.body if isinstance(s, ast.Assign) and U(s.targets[0]) == "name" and isinstance(s.value, ast.Constant)), None)
        w = repo.mods["core"].funcs.get(nm) if nm else None
        builds = w is not None and any(isinstance(x, ast.Call) and U(x.func) == cname for x in own_nodes(w))
        res.require(nm is not None and regmap.get(nm) == nm and builds, "R33.3", f"core.{cname} name / registry key / wrapper agree", f"name={nm}, registry maps it to {regmap.get(nm)}, wrapper constructs {cname}: {builds}", repo.loc("core", c), f"{nm}")
    rp = [c for c in own_nodes(gm) if isinstance(c, ast.Call) and U(c.func) == "provenance.record_provenance"]
    res.require(len(rp) == 1 and len(rp[0].args) >= 2 and U(rp[0].args[1]) == "self.name" and any(k.arg is None and U(k.value) == "self.provenance_params" for k in rp[0].keywords), "R33.3", "core.EstimationMethod.get_modified_ts records (self.name, **self.provenance_params)", "recorded command/parameters differ", repo.loc(gm))
    pp = repo.fn("util", "preprocess_ts")
    rp2 = [c for c in own_nodes(pp) if isinstance(c, ast.Call) and U(c.func) == "provenance.record_provenance"]
    res.require(len(rp2) == 1 and U(rp2[0].args[1]) == "'preprocess_ts'", "R33.3", "util.preprocess_ts records the command 'preprocess_ts'", f"records {U(rp2[0].args[1]) if rp2 else None}", repo.loc(pp))
    pd = repo.fn("provenance", "get_provenance_dict")
    t = U(pd).replace(" ", "")
    res.require("parameters=dict(kwargs)" in t and "parameters['command']=command" in t and "'parameters':parameters" in t, "R33.3", "provenance.get_provenance_dict stores the command and all keyword parameters", "record layout changed", repo.loc(pd))
    # R33.4
    for cname in ("InsideOutsideMethod", "MaximizationMethod", "VariationalGammaMethod"):
        f = repo.fn("core", f"{cname}.run")
        cap = [s for s, g in stmts(f) if isinstance(s, ast.Expr) and isinstance(s.value, ast.Call) and U(s.value.func) == "self.provenance_params.update" and "locals()" in U(s.value)]
        ok = len(cap) == 1
        early = True
        if ok:
            for n in own_nodes(f):
                if isinstance(n, (ast.Assign, ast.AugAssign, ast.For, ast.With)) and n.lineno < cap[0].lineno:
                    early = False
            guard = [U(e) for e, pol in bool_guards([g for s, g in stmts(f) if s is cap[0]][0]) if pol]
            ok = early and guard == ["self.provenance_params is not None"] and 'k != "self"' in U(cap[0]).replace("'", '"')
        res.require(ok, "R33.4", f"core.{cname}.run captures its parameters with locals() before binding any other local", "capture missing, late, or not excluding self", repo.loc(f))
    keys = {k.arg for s, g in stmts(init) if isinstance(s, ast.Assign) and U(s.targets[0]) == "self.provenance_params" and isinstance(s.value, ast.Call) for k in s.value.keywords}
    res.require({"mutation_rate", "recombination_rate", "time_units", "progress", "population_size"} <= keys, "R33.4", "core.EstimationMethod.__init__ records the shared parameters", f"recorded keys {sorted(keys)}", repo.loc(init))
    rk = {k.arg for k in rp2[0].keywords} if rp2 else set()
    params = {a.arg for a in pp.args.kwonlyargs} - {"record_provenance", "remove_telomeres"}
    res.require(params <= rk, "R33.4", "util.preprocess_ts records every option it was called with", f"not recorded: {sorted(params - rk)}", repo.loc(pp), f"{sorted(rk)}")


VARIANTS = [
    dict(name="two-epoch-history-loses-breaks", mod="demography", expect="fire", rule="R33.5", old="        if len(self.time_breaks) > 1:\n            ret_val[\"time_breaks\"] = list(self.time_breaks[1:])", new="        time_breaks = self.time_breaks[1:]\n        if len(time_breaks) > 1:\n            ret_val[\"time_breaks\"] = list(time_breaks)"),
    dict(name="twin-breaks-via-local", mod="demography", expect="silent", old="        if len(self.time_breaks) > 1:\n            ret_val[\"time_breaks\"] = list(self.time_breaks[1:])", new="        time_breaks = self.time_breaks[1:]\n        if len(time_breaks) > 0:\n            ret_val[\"time_breaks\"] = list(time_breaks)"),
    dict(name="simplify-records-too", mod="util", expect="fire", rule="R33.1", old="            filter_sites=filter_sites,\n            record_provenance=False,\n            **kwargs,\n        )\n    else:", new="            filter_sites=filter_sites,\n            **kwargs,\n        )\n    else:"),
    dict(name="split-records-inside-preprocess", mod="util", expect="fire", rule="R33.1", old="        ts = split_disjoint_nodes(tables.tree_sequence(), record_provenance=False)", new="        ts = split_disjoint_nodes(tables.tree_sequence())"),
    dict(name="delete-intervals-records", mod="util", expect="fire", rule="R33.1", old="        tables.delete_intervals(delete_intervals, simplify=False, record_provenance=False)", new="        tables.delete_intervals(delete_intervals, simplify=False)"),
    dict(name="flag-ignored", mod="util", expect="fire", rule="R33.1", old="    if record_provenance:\n        provenance.record_provenance(\n            tables,\n            \"preprocess_ts\",", new="    if True:\n        provenance.record_provenance(\n            tables,\n            \"preprocess_ts\","),
    dict(name="dating-records-twice", mod="core", expect="fire", rule="R33.1", old="        return tables.tree_sequence()\n\n    def set_time_metadata", new="        if self.provenance_params is not None:\n            provenance.record_provenance(tables, self.name, self.start_time)\n        return tables.tree_sequence()\n\n    def set_time_metadata"),
    dict(name="prior-simplify-records", mod="util", expect="fire", rule="R33.1", old="        filter_sites=False,\n        record_provenance=False,\n        filter_individuals=False,", new="        filter_sites=False,\n        filter_individuals=False,"),
    dict(name="provenance-truncated", mod="core", expect="fire", rule="R33.2", old="        tables.time_units = self.time_units\n", new="        tables.time_units = self.time_units\n        tables.provenances.truncate(0)\n"),
    dict(name="wrong-command-name", mod="core", expect="fire", rule="R33.3", old="                tables, self.name, self.start_time, **self.provenance_params", new="                tables, \"tsdate\", self.start_time, **self.provenance_params"),
    dict(name="registry-mismatch", mod="core", expect="fire", rule="R33.3", old='    "inside_outside": inside_outside,\n    "maximization": maximization,', new='    "inside_outside": maximization,\n    "maximization": inside_outside,'),
    dict(name="capture-after-locals", mod="core", expect="fire", rule="R33.4", old="        if self.provenance_params is not None:\n            self.provenance_params.update(\n                {k: v for k, v in locals().items() if k != \"self\"}\n            )\n        if not max_iterations > 0:", new="        fit_tmp = self.ts\n        if self.provenance_params is not None:\n            self.provenance_params.update(\n                {k: v for k, v in locals().items() if k != \"self\"}\n            )\n        if not max_iterations > 0:"),
    dict(name="option-not-recorded", mod="util", expect="fire", rule="R33.4", old="            split_disjoint=split_disjoint,\n            filter_populations=filter_populations,", new="            filter_populations=filter_populations,"),
    dict(name="twin-keyword-order", mod="util", expect="silent", old="            minimum_gap=minimum_gap,\n            erase_flanks=erase_flanks,\n            split_disjoint=split_disjoint,", new="            erase_flanks=erase_flanks,\n            minimum_gap=minimum_gap,\n            split_disjoint=split_disjoint,"),
]
