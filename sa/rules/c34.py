"""C34 -- the command line interface is faithful to the Python API."""

import ast

from ..base import stmts,  AnalysisError, Defs, U, all_params, always_exits, own_nodes
from ..paths import enum_paths

IGNORED_DESTS = {"verbosity", "subcommand", "version", "help", "runner"}


def dest_of(call):
    for k in call.keywords:
        if k.arg == "dest":
            return k.value.value
    flags = [a.value for a in call.args if isinstance(a, ast.Constant) and isinstance(a.value, str)]
    longs = [f for f in flags if f.startswith("--")]
    if longs:
        return longs[0][2:].replace("-", "_")
    shorts = [f for f in flags if f.startswith("-")]
    if shorts:
        return shorts[0][1:]
    return flags[0] if flags else None


def kw(call, name):
    for k in call.keywords:
        if k.arg == name:
            return k.value
    return None


def parse_cli(repo):
    f = repo.fn("cli", "tsdate_cli_parser")
    subs = {}  # subcommand -> dict(options=[...], runner=name)
    cur = None
    for s in f.body:
        for n in ast.walk(s):
            if isinstance(n, ast.Call) and isinstance(n.func, ast.Attribute):
                if n.func.attr == "add_parser" and n.args and isinstance(n.args[0], ast.Constant):
                    cur = n.args[0].value
                    subs[cur] = dict(options=[], runner=None)
                elif n.func.attr == "add_argument" and U(n.func.value) == "parser" and cur:
                    act = kw(n, "action")
                    if act is not None and U(act) in ("'version'", "'help'"):
                        continue
                    subs[cur]["options"].append(dict(dest=dest_of(n), node=n, flags=[a.value for a in n.args if isinstance(a, ast.Constant)]))
                elif n.func.attr == "set_defaults" and U(n.func.value) == "parser" and cur:
                    r = kw(n, "runner")
                    if r is not None:
                        subs[cur]["runner"] = U(r)
    return f, subs


def api_accepts(repo, api_fn, methods):
    """keyword names accepted when calling ``api_fn`` with method in ``methods``"""
    names = set(all_params(api_fn))
    if api_fn.args.kwarg is None:
        return names
    core = repo.mods["core"]
    reg = core.consts.get("estimation_methods")
    per = []
    for m in methods:
        fn = None
        if isinstance(reg, ast.Dict):
            for k, v in zip(reg.keys, reg.values):
                if isinstance(k, ast.Constant) and k.value == m and isinstance(v, ast.Name):
                    fn = core.funcs.get(v.id)
        if fn is None:
            raise AnalysisError(f"R34.1: method {m!r} not found in core.estimation_methods")
        acc = set(all_params(fn))
        if fn.args.kwarg is not None:
            acc |= set(all_params(repo.fn("core", "EstimationMethod.__init__")))
        per.append(acc)
    inter = set.intersection(*per) if per else set()
    return names | inter


def related(keyword, dest):
    return keyword == dest or dest.startswith(keyword) or keyword.startswith(dest)


def run(repo, res):
    res.rule("R34.1", "on every runner path that reaches the API call, each parser dest is passed (as a pure copy) under a keyword the selected API function accepts and that names the same option, or is tested in a guard that ends in error_exit")
    res.rule("R34.2", "every boolean option can be switched both ways: no type=bool (bool('False') is True), no store_true with default True / store_false with default False")
    res.rule("R34.3", "--method choices equal the keys of core.estimation_methods")
    res.rule("R34.4", "the only output effect (dump(args.output)) is the last statement of the runner, after every error_exit guard and after the API call")
    res.rule("R34.5", "a guard that rejects an option combination tests the option's presence with `is (not) None`, never by truthiness: `--max-iterations 0` and `--rescaling-intervals 0` are values the user gave, and `if args.x:` would let them through to a method that cannot use them")
    n_g = 0
    for q, f in repo.mods["cli"].funcs.items():
        if not q.startswith("run_"):
            continue
        mod = repo.mods["cli"]
        for st, g in stmts(f):
            if not (isinstance(st, ast.If) and st.body and isinstance(st.body[-1], ast.Expr) and isinstance(st.body[-1].value, ast.Call) and U(st.body[-1].value.func) == "error_exit"):
                continue
            for n in ast.walk(st.test):
                if isinstance(n, ast.Attribute) and isinstance(n.value, ast.Name) and n.value.id == "args":
                    n_g += 1
                    par = mod.parent.get(n)
                    bare = isinstance(par, (ast.BoolOp, ast.If)) or (isinstance(par, ast.UnaryOp) and isinstance(par.op, ast.Not))
                    res.require(not bare, "R34.5", f"cli.{q} rejection guard on --{n.attr.replace('_', '-')} tests presence, not truthiness", f"`{U(st.test)}` treats the value 0 / '' of --{n.attr.replace('_', '-')} as 'option not given': the invalid combination is accepted and an output file is written", repo.loc(f, st), U(st.test))
    res.floor("cli_rejection_guards", n_g, 5)
    pf, subs = parse_cli(repo)
    n_opts = sum(len(v["options"]) for v in subs.values())
    res.floor("cli_options", n_opts, 15)
    res.floor("cli_subcommands", len(subs), 2)
    core = repo.mods["core"]
    reg = core.consts.get("estimation_methods")
    reg_keys = [k.value for k in reg.keys] if isinstance(reg, ast.Dict) else []
    apis = {"date": repo.fn("core", "date"), "preprocess_ts": repo.fn("util", "preprocess_ts")}

    for sub, info in sorted(subs.items()):
        if not info["runner"]:
            res.bad("R34.1", f"cli {sub}: runner", "sub-command has no runner", repo.loc(pf))
            continue
        runner = repo.fn("cli", info["runner"])
        dests = [o["dest"] for o in info["options"] if o["dest"] not in IGNORED_DESTS]
        # R34.2 / R34.3 on option declarations
        for o in info["options"]:
            n = o["node"]
            t, act, dflt, ch = kw(n, "type"), kw(n, "action"), kw(n, "default"), kw(n, "choices")
            cons = f"cli {sub} --{o['dest']}"
            if t is not None and U(t) == "bool":
                res.bad("R34.2", f"{cons} can be switched off", "declared with type=bool: any non-empty string, including 'False', parses as True", repo.loc(pf, n))
            elif act is not None and U(act) == "'store_true'" and dflt is not None and U(dflt) == "True":
                res.bad("R34.2", f"{cons} can be switched off", "store_true with default True can never be False", repo.loc(pf, n))
            elif act is not None and U(act) == "'store_false'" and dflt is not None and U(dflt) == "False":
                res.bad("R34.2", f"{cons} can be switched on", "store_false with default False can never be True", repo.loc(pf, n))
            elif dflt is not None and U(dflt) in ("True", "False") or (act is not None and U(act).startswith("'store_")):
                res.ok("R34.2", f"{cons} can be switched both ways", f"type={U(t)} action={U(act)} default={U(dflt)}", repo.loc(pf, n))
            if o["dest"] == "method":
                got = [c.value for c in ch.elts] if isinstance(ch, (ast.List, ast.Tuple)) else None
                res.require(got is not None and sorted(got) == sorted(reg_keys), "R34.3", f"cli {sub} --method choices", f"choices {got} differ from registry {sorted(reg_keys)}", repo.loc(pf, n), f"{sorted(reg_keys)}")
        # paths through the runner
        paths = enum_paths(runner)
        res.count("runner_paths", len(paths))
        n_api = 0
        for p in paths:
            api_call, api_fn, api_name = None, None, None
            for c in p.calls():
                for tg in repo.resolve_call(runner, c):
                    for nm, fn in apis.items():
                        if tg is fn:
                            api_call, api_fn, api_name = c, fn, nm
            if api_call is None:
                continue
            n_api += 1
            conds = [(U(e[1]), e[2]) for e in p.conds()]
            # which methods are possible on this path
            methods = list(reg_keys)
            for txt, pol in conds:
                for m in reg_keys:
                    if txt.replace('"', "'") == f"args.method == '{m}'":
                        methods = [m] if pol else [x for x in methods if x != m]
            branch = " and ".join(t if pol else f"not ({t})" for t, pol in conds if "args.method" in t) or "any"
            accepted = api_accepts(repo, api_fn, methods) if api_name == "date" else set(all_params(api_fn))
            # keyword -> expression on this path (expanding **params built on the path)
            passed = {}
            assigns = {}
            for e in p.stmts():
                if isinstance(e, ast.Assign) and len(e.targets) == 1 and isinstance(e.targets[0], ast.Name):
                    assigns[e.targets[0].id] = e.value
            for k in api_call.keywords:
                if k.arg is not None:
                    passed[k.arg] = k.value
                elif isinstance(k.value, ast.Name) and k.value.id in assigns:
                    v = assigns[k.value.id]
                    if isinstance(v, ast.Call) and U(v.func) == "dict":
                        for kk in v.keywords:
                            passed[kk.arg] = kk.value
                    elif isinstance(v, ast.Dict):
                        for kk, vv in zip(v.keys, v.values):
                            if isinstance(kk, ast.Constant):
                                passed[kk.value] = vv
                    else:
                        res.unres("R34.1", f"cli {sub} [{branch}] **{k.value.id}", "keyword dict not a literal on this path", repo.loc(runner, api_call))
            for i, a in enumerate(api_call.args):
                pn = all_params(api_fn)
                if i < len(pn):
                    passed[pn[i]] = a
            # guards that reject a dest on this path
            rejected = set()
            for ev in p.events:
                if isinstance(ev, tuple) and ev[0] == "test":
                    pass
            for s in ast.walk(runner):
                if isinstance(s, ast.If) and always_exits(s.body) and any(U(c.func) == "error_exit" for c in ast.walk(s) if isinstance(c, ast.Call)):
                    on_path = any(isinstance(ev, tuple) and ev[0] == "test" and ev[1] is s.test and ev[2] is False for ev in p.events)
                    if on_path:
                        for d in dests:
                            if f"args.{d}" in U(s.test):
                                rejected.add(d)
            # other consuming effects: loading the input, dumping the output
            consumed_elsewhere = set()
            for c in p.calls():
                fn = U(c.func)
                if fn in ("tskit.load",) or fn.endswith(".dump"):
                    for d in dests:
                        if any(U(a) == f"args.{d}" for a in c.args):
                            consumed_elsewhere.add(d)
            for d in dests:
                cons = f"cli.{runner.name} branch[{branch}] dest={d}"
                kws = [k for k, v in passed.items() if U(v) == f"args.{d}"]
                mangled = [k for k, v in passed.items() if f"args.{d}" in U(v) and U(v) != f"args.{d}"]
                if kws:
                    k = kws[0]
                    if k not in accepted:
                        res.bad("R34.1", cons, f"passed as `{k}=`, which {api_name}(method in {methods}) does not accept", repo.loc(runner, api_call))
                    elif not related(k, d) and all_params(api_fn)[0] != k:
                        res.bad("R34.1", cons, f"option --{d} is passed under the unrelated keyword `{k}`", repo.loc(runner, api_call))
                    else:
                        res.ok("R34.1", cons, f"passed as {k}=args.{d}", repo.loc(runner, api_call))
                elif mangled:
                    res.bad("R34.1", cons, f"value is transformed before reaching the API: {mangled[0]}={U(passed[mangled[0]])}", repo.loc(runner, api_call))
                elif d in rejected:
                    res.ok("R34.1", cons, "rejected with error_exit unless left at its default", repo.loc(runner, api_call))
                elif d in consumed_elsewhere:
                    res.ok("R34.1", cons, "consumed by load/dump", repo.loc(runner, api_call))
                else:
                    res.bad("R34.1", cons, f"option --{d} is accepted by the parser but on this path it is neither passed to {api_name}() nor rejected: the value given is silently dropped", repo.loc(runner, api_call))
        if n_api == 0:
            raise AnalysisError(f"R34.1: no path of {runner.name} reaches the API call")
        # R34.4 output last
        last = runner.body[-1]
        is_dump = isinstance(last, ast.Expr) and isinstance(last.value, ast.Call) and U(last.value.func).endswith(".dump") and any("args.output" in U(a) for a in last.value.args)
        dumps = [n for n in own_nodes(runner) if isinstance(n, ast.Call) and (U(n.func).endswith(".dump") or U(n.func) in ("open",))]
        res.require(is_dump and len(dumps) == 1, "R34.4", f"cli.{runner.name} writes output last and once", f"last statement is `{U(last)[:60]}`, {len(dumps)} output effects", repo.loc(runner, last))
        # the dumped object is the API result
        if is_dump:
            d = Defs(runner)
            o = d.origins(last.value.func.value)
            okres = all(("tsdate.date(" in x) or ("tsdate.preprocess_ts(" in x) for x in o)
            res.require(okres, "R34.4", f"cli.{runner.name} dumps the API result unchanged", f"dumped object originates from {sorted(o)}", repo.loc(runner, last))


_BOOL = "        type=str_to_bool,\n        help=(\n            \"Should all material"
VARIANTS = [
    dict(name="presence-by-truthiness", mod="cli", expect="fire", rule="R34.5", old="        if args.rescaling_intervals is not None:", new="        if args.rescaling_intervals:"),
    dict(name="type-bool", mod="cli", expect="fire", rule="R34.2", old=_BOOL, new=_BOOL.replace("str_to_bool", "bool")),
    dict(name="split-disjoint-not-passed", mod="cli", expect="fire", rule="R34.1",
         old="        erase_flanks=args.erase_flanks,\n        split_disjoint=args.split_disjoint,\n", new="        erase_flanks=args.erase_flanks,\n"),
    dict(name="swapped-keywords", mod="cli", expect="fire", rule="R34.1",
         old="        erase_flanks=args.erase_flanks,\n        split_disjoint=args.split_disjoint,\n", new="        erase_flanks=args.split_disjoint,\n        split_disjoint=args.erase_flanks,\n"),
    dict(name="threads-dropped", mod="cli", expect="fire", rule="R34.1",
         old="            probability_space=args.probability_space,\n            num_threads=args.num_threads,\n", new="            probability_space=args.probability_space,\n"),
    dict(name="value-transformed", mod="cli", expect="fire", rule="R34.1",
         old="            min_branch_length=args.min_branch_length,\n            eps=args.epsilon,", new="            min_branch_length=args.min_branch_length,\n            eps=args.epsilon or 1e-6,"),
    dict(name="guard-removed", mod="cli", expect="fire", rule="R34.1",
         old="        if args.num_threads is not None:\n            error_exit(", new="        if args.num_threads is not None:\n            logger.info("),
    dict(name="unaccepted-keyword", mod="cli", expect="fire", rule="R34.1",
         old="            max_iterations=args.max_iterations,\n            rescaling_intervals=args.rescaling_intervals,\n        )",
         new="            max_iterations=args.max_iterations,\n            rescaling_intervals=args.rescaling_intervals,\n            num_threads=args.num_threads,\n        )"),
    dict(name="method-choice-added", mod="cli", expect="fire", rule="R34.3",
         old='choices=["inside_outside", "maximization", "variational_gamma"]', new='choices=["inside_outside", "maximization", "variational_gamma", "em"]'),
    dict(name="dump-before-guard", mod="cli", expect="fire", rule="R34.4",
         old="    dated_ts = tsdate.date(ts, mutation_rate=args.mutation_rate, **params)\n    dated_ts.dump(args.output)\n",
         new="    ts.dump(args.output)\n    dated_ts = tsdate.date(ts, mutation_rate=args.mutation_rate, **params)\n    dated_ts.dump(args.output)\n"),
    dict(name="twin-dict-literal", mod="cli", expect="silent",
         old="        params = dict(\n            recombination_rate=args.recombination_rate,\n            method=args.method,\n            min_branch_length=args.min_branch_length,\n            progress=args.progress,\n            max_iterations=args.max_iterations,\n            rescaling_intervals=args.rescaling_intervals,\n        )",
         new="        params = {\n            'recombination_rate': args.recombination_rate,\n            'method': args.method,\n            'min_branch_length': args.min_branch_length,\n            'progress': args.progress,\n            'max_iterations': args.max_iterations,\n            'rescaling_intervals': args.rescaling_intervals,\n        }"),
    dict(name="twin-epsilon-rejected-for-vgamma", mod="cli", expect="silent",
         old="        if args.probability_space is not None:\n            error_exit(", new="        if args.epsilon != core.DEFAULT_EPSILON:\n            error_exit('eps not used')\n        if args.probability_space is not None:\n            error_exit("),
]
