"""C35 -- invalid inputs rejected cleanly: validation guards (R35.1), no public parameter
reaches an assert unvalidated (R35.2), kernel typing on the API paths (R35.3), result
shape and exception types of the entry layer (R35.4)."""

import ast

from ..base import AnalysisError, Defs, U, bool_guards, own_nodes, stmts
from ..callgraph import CallGraph
from ..intervals import Flow, atoms_of, entails
from .common import e2_rule, engine

ALLOWED_EXC = ("ValueError", "NotImplementedError")
API = ("date", "variational_gamma", "inside_outside", "maximization")


def raises_allowed(body):
    for s in body:
        if isinstance(s, ast.Raise) and s.exc is not None:
            name = U(s.exc.func) if isinstance(s.exc, ast.Call) else U(s.exc)
            return name in ALLOWED_EXC
    return False


def norm(t):
    return U(t).replace(" ", "").replace("0.0", "0").replace("1.0", "1").replace("(", "").replace(")", "")


def guard_tests(f):
    """[(test text normalised, guards, If node)] for `if T: raise <allowed>` statements"""
    out = []
    for s, g in stmts(f):
        if isinstance(s, ast.If) and raises_allowed(s.body):
            out.append((norm(s.test), g, s))
    return out


def rejects_nonpositive(txt, p):
    """does the raising test reject p <= 0 (and NaN)?  accepts an `p is not None and` prefix"""
    core = txt
    pref = f"{p}isnotNoneand"
    if core.startswith(pref):
        core = core[len(pref) :]
    return core in (f"not{p}>0", f"not0<{p}")


def run(repo, res):
    res.rule("R35.9", "the internal assertion of the constraint kernel that an edge never joins two fixed nodes in the wrong order is unreachable for valid input: it is control-dependent on `t[child] - t[parent] > 0` with no added slack (tskit guarantees parent time > child time for the input's own sample times, but not by more than min_branch_length)")
    ck_ = repo.fn("util", "_constrain_ages")
    from ..base import Defs as _D9, stmts as _st9, bool_guards as _bg9

    d9_ = _D9(ck_)
    as_ = [(x, g) for x, g in _st9(ck_) if isinstance(x, ast.Assert) and "nodes_fixed" in U(x.test) and any(e == "loop" for e, _ in g)]
    if not as_:
        raise AnalysisError("R35.9: the both-fixed assertion of _constrain_ages was not found")
    for x, g in as_:
        # resolve temporaries from the loop body that contains the assertion (the name may be reused elsewhere)
        from .c10 import block_defs as _bd9, inline_block as _ib9

        loops9 = [n_ for e_, n_ in g if e_ == "loop" and isinstance(n_, ast.For)]
        local9 = _bd9(loops9[-1].body) if loops9 else {}
        conds = [U(_ib9(e, local9) if local9 else d9_.inline(e)).replace(" ", "") for e, pol in _bg9(g) if pol]
        tvar = [a.arg for a in ck_.args.args][0]
        ok9 = any(c in (f"{tvar}[c]-{tvar}[p]>0", f"{tvar}[c]>{tvar}[p]", f"{tvar}[p]<{tvar}[c]", f"0<{tvar}[c]-{tvar}[p]") for c in conds)
        res.require(ok9, "R35.9", "util._constrain_ages both-fixed assertion is reachable only for an inverted edge", f"`assert {U(x.test)}` is guarded by {conds}: an edge between two sample nodes whose (valid) branch is shorter than the slack reaches the assertion -> AssertionError for a valid input", repo.loc(ck_, x), str(conds))
    from . import wiring as _w

    res.rule("R35.8", "None-defaults of public parameters are replaced through `is None`, never through `param or DEFAULT` (which also swallows an explicit 0 that must be rejected or used)")
    _w.falsy_defaults(repo, res, "R35.8")
    from . import loopdef

    res.rule("R35.7", "valid option values never crash: a local bound only inside `for _ in range(<parameter>)` and read after the loop requires every call site to be control-dependent on `<argument> > 0` (e.g. rescaling_iterations=0 must skip rescaling, not raise UnboundLocalError)")
    loopdef.run(repo, res, "R35.7")
    from . import wiring

    res.rule("R35.6", "no public parameter is accepted and silently ignored: every named parameter of the dating entry points, method constructors/run methods and preprocessing helpers is read (forwarded, validated or stored)")
    wiring.run(repo, res, "R35.6")
    res.rule("R35.1", "each invalid parameter class of the statement is rejected by a guard raising ValueError/NotImplementedError placed in the shared constructor / method entry (mutation_rate > 0, min_branch_length > 0, constr_iterations non-negative int, max_iterations > 0, max_shape >= 1, unknown method, unused population_size/priors, eps and no-mutations for variational_gamma)")
    res.rule("R35.2", "interval propagation of pure copies of public parameters: every assert on the API call graph whose condition compares such a value with literals is implied by the guards on each flow (NaN-aware); otherwise that input raises AssertionError")
    res.rule("R35.3", "E2: no definite numba-signature mismatch at any kernel call site reachable from date()/the named methods")
    res.rule("R35.4", "parse_result returns the tree sequence first, then the fit iff return_fit, then the likelihood iff return_likelihood; every raise in the entry layer (core.py) on the API call graph is ValueError or NotImplementedError")
    cg = engine(repo, CallGraph)
    roots = [repo.fn("core", n) for n in API]
    reach = cg.reachable(roots)
    res.count("functions_reachable_from_api", len(reach))
    r351(repo, res)
    r352(repo, res, cg, roots, reach)
    e2_rule(repo, res, "R35.3", lambda caller, callee: caller in reach, min_sites=15)
    r354(repo, res, reach)


# ---------------------------------------------------------------------------------------
def r351(repo, res):
    init = repo.fn("core", "EstimationMethod.__init__")
    gt = guard_tests(init)
    loc = lambda f, n=None: repo.loc(f, n)  # noqa: E731

    par = repo.mods["core"].parent

    def nesting(s):
        """tests of the `if` statements that really enclose ``s``"""
        out = []
        n = par.get(s)
        while n is not None and not isinstance(n, ast.FunctionDef):
            if isinstance(n, ast.If):
                out.append(U(n.test))
            n = par.get(n)
        return out

    # mutation_rate
    hit = [(t, g, s) for t, g, s in gt if rejects_nonpositive(t, "mutation_rate")]
    res.require(bool(hit) and not nesting(hit[0][2]), "R35.1", "core.EstimationMethod.__init__ rejects mutation_rate <= 0 for every method",
                "no unconditional `if mutation_rate is not None and not mutation_rate > 0: raise ValueError` in the shared constructor: the discrete-time methods accept a non-positive rate", loc(init), hit[0][0] if hit else "")
    # min_branch_length
    hit = [(t, g, s) for t, g, s in gt if rejects_nonpositive(t, "min_branch_length")]
    okg = bool(hit) and all("min_branch_length" in t for t in nesting(hit[0][2]))
    res.require(okg, "R35.1", "core.EstimationMethod.__init__ rejects min_branch_length <= 0", "guard missing or nested under an unrelated condition", loc(init), hit[0][0] if hit else "")
    # constr_iterations
    hit = [(t, g, s) for t, g, s in gt if "isinstanceconstr_iterations,int" in t and "constr_iterations>=0" in t and t.startswith("not")]
    res.require(bool(hit), "R35.1", "core.EstimationMethod.__init__ rejects a negative or non-integer constr_iterations", "guard `not (isinstance(constr_iterations, int) and constr_iterations >= 0)` missing", loc(init))
    # unused priors / population size
    hit_p = [(t, g) for t, g, s in gt if t == "priorsisnotNone" and any(U(e).replace(" ", "") == "self.prior_grid_func_nameisNone" and pol for e, pol in bool_guards(g))]
    hit_n = [(t, g) for t, g, s in gt if t == "NeisnotNone" and any(U(e).replace(" ", "") == "self.prior_grid_func_nameisNone" and pol for e, pol in bool_guards(g))]
    res.require(bool(hit_p) and bool(hit_n), "R35.1", "core.EstimationMethod.__init__ rejects priors/population_size for methods that do not use them", "guards under `self.prior_grid_func_name is None` missing", loc(init))
    vg_cls = repo.cls("core", "VariationalGammaMethod")
    pg = [U(s.value) for s in vg_cls.body if isinstance(s, ast.Assign) and U(s.targets[0]) == "prior_grid_func_name"]
    res.require(pg == ["None"], "R35.1", "core.VariationalGammaMethod declares that it uses no prior grid", f"prior_grid_func_name = {pg}", repo.loc("core", vg_cls))
    hit = [(t, g) for t, g, s in gt if t == "NeisNone" and any(U(e).replace(" ", "") == "priorsisNone" and pol for e, pol in bool_guards(g))]
    res.require(bool(hit), "R35.1", "core.EstimationMethod.__init__ requires population_size when priors are not given", "guard missing", loc(init))
    # subclasses reach the shared constructor
    for cname in ("InsideOutsideMethod", "MaximizationMethod", "VariationalGammaMethod"):
        own = repo.mods["core"].funcs.get(f"{cname}.__init__")
        if own is None:
            ok = init in [repo.class_init(repo.cls("core", cname), "core")]
        else:
            ok = any(isinstance(n, ast.Call) and U(n.func) == "super().__init__" and any(k.arg is None for k in n.keywords) for n in own_nodes(own))
        res.require(ok, "R35.1", f"core.{cname} runs the shared validation", "constructor does not forward **kwargs to EstimationMethod.__init__", repo.loc("core", repo.cls("core", cname)))
    # variational run guards
    run_v = repo.fn("core", "VariationalGammaMethod.run")
    gv = guard_tests(run_v)
    res.require(any(rejects_nonpositive(t, "max_iterations") for t, g, s in gv), "R35.1", "core.VariationalGammaMethod.run rejects max_iterations <= 0", "guard missing", loc(run_v))
    res.require(any(t in ("notmax_shape>=1", "not1<=max_shape") for t, g, s in gv), "R35.1", "core.VariationalGammaMethod.run rejects max_shape < 1", "no `if not max_shape >= 1: raise ValueError`: max_shape < 1 reaches `assert max_shape >= 1.0` in the EP kernels", loc(run_v))
    res.require(any(t == "self.mutation_rateisNone" for t, g, s in gv), "R35.1", "core.VariationalGammaMethod.run requires a mutation rate", "guard missing", loc(run_v))
    vgf = repo.fn("core", "variational_gamma")
    gw = guard_tests(vgf)
    res.require(any(t == "epsisnotNone" for t, g, s in gw), "R35.1", "core.variational_gamma rejects eps", "guard missing", loc(vgf))
    res.require(any(t in ("tree_sequence.num_mutations==0", "nottree_sequence.num_mutations>0", "tree_sequence.num_mutations<1") for t, g, s in gw), "R35.1", "core.variational_gamma rejects inputs without mutations", "guard missing", loc(vgf))
    # the guards come before the method object is built
    for f in (vgf,):
        first_build = min((n.lineno for n in own_nodes(f) if isinstance(n, ast.Call) and U(n.func).endswith("Method")), default=None)
        late = [s for t, g, s in gw if first_build is not None and s.lineno > first_build]
        res.require(not late, "R35.1", "core.variational_gamma validates before constructing the method", "a validation guard follows the construction of the dating method", loc(f))
    mx = repo.fn("core", "MaximizationMethod.run")
    res.require(any(t.startswith("self.mutation_rateisNone") for t, g, s in guard_tests(mx)), "R35.1", "core.MaximizationMethod.run requires a clock", "guard missing", loc(mx))
    # unknown method
    dt = repo.fn("core", "date")
    gd = guard_tests(dt)
    res.require(any(t == "methodnotinestimation_methods" for t, g, s in gd), "R35.1", "core.date rejects unknown methods", "guard `method not in estimation_methods` missing", loc(dt))
    # deprecated return_posteriors / recombination_rate
    res.require(any(t == "recombination_rateisnotNone" for t, g, s in gt), "R35.1", "core.EstimationMethod.__init__ rejects the recombination clock with NotImplementedError", "guard missing", loc(init))
    # EP constructor re-validates the rate
    ci = repo.fn("variational", "ExpectationPropagation._check_valid_inputs")
    res.require(any(rejects_nonpositive(t, "mutation_rate") for t, g, s in guard_tests(ci)), "R35.1", "variational.ExpectationPropagation._check_valid_inputs rejects mutation_rate <= 0", "guard missing", loc(ci))


# ---------------------------------------------------------------------------------------
def r352(repo, res, cg, roots, reach):
    flow = Flow(repo, cg, roots)
    n_assert = n_scope = 0
    for f in sorted(reach, key=lambda f: (f._mod, f.lineno)):
        for n in own_nodes(f):
            if not isinstance(n, ast.Assert):
                continue
            n_assert += 1
            at = atoms_of(n.test)
            if at is None:
                continue
            for x, op, c in at:
                if not (isinstance(x, ast.Name) or (isinstance(x, ast.Attribute) and U(x.value) == "self")):
                    continue
                alts = flow.eval(f, x, n)
                if all(a.kind == "unknown" for a in alts):
                    continue
                n_scope += 1
                for a in alts:
                    cons = f"{f._mod}.{f._qual} assert `{U(x)} {op} {c}`"
                    e = entails(a, op, c)
                    if a.kind == "unknown":
                        res.unres("R35.2", cons, "one incoming flow is computed, not a pure copy", repo.loc(f, n))
                    elif e:
                        res.ok("R35.2", cons, f"implied on the flow {a!r}", repo.loc(f, n))
                    elif a.kind == "api":
                        res.bad("R35.2", cons + f" <- {a.src}", f"the public parameter {a.src} reaches `assert {U(n.test)}` knowing only {a!r}: an invalid value raises AssertionError instead of ValueError", repo.loc(f, n))
                    else:
                        res.bad("R35.2", cons + f" <- constant {a.src}", f"the value {a!r} violates the assertion on this flow", repo.loc(f, n))
    res.count("asserts_on_api_call_graph", n_assert)
    res.count("asserts_on_pure_copies_of_scalars", n_scope)
    if n_scope < 5:
        raise AnalysisError(f"R35.2: only {n_scope} parameter asserts recognised (expected at least 5)")


# ---------------------------------------------------------------------------------------
def r354(repo, res, reach):
    pr = repo.fn("core", "EstimationMethod.parse_result")
    body = pr.body
    ok = False
    detail = ""
    if len(body) >= 4 and isinstance(body[0], ast.Assign) and isinstance(body[0].value, ast.List):
        first = U(body[0].value.elts[0]) if body[0].value.elts else ""
        s1, s2, ret = body[1], body[2], body[-1]
        c1 = isinstance(s1, ast.If) and U(s1.test) == "self.return_fit" and len(s1.body) == 1 and U(s1.body[0]) == "ret.append(result.fit_object)" and not s1.orelse
        c2 = isinstance(s2, ast.If) and U(s2.test) == "self.return_likelihood" and len(s2.body) == 1 and U(s2.body[0]) == "ret.append(result.mutation_lik)" and not s2.orelse
        c3 = isinstance(ret, ast.Return) and U(ret.value) in ("tuple(ret) if len(ret) > 1 else ret.pop()", "tuple(ret) if len(ret) > 1 else ret[0]")
        ok = first.startswith("self.get_modified_ts(") and c1 and c2 and c3
        detail = f"first={first[:40]} fit={c1} lik={c2} ret={c3}"
    res.require(ok, "R35.4", "core.EstimationMethod.parse_result result shape", f"not [ts] + [fit iff return_fit] + [likelihood iff return_likelihood]: {detail}", repo.loc(pr), detail)
    # Results fields consumed by parse_result exist at those positions
    n_raise = 0
    for f in sorted(reach, key=lambda f: (f._mod, f.lineno)):
        if f._mod != "core":
            continue
        for s, g in stmts(f):
            if isinstance(s, ast.Raise) and s.exc is not None:
                n_raise += 1
                name = U(s.exc.func) if isinstance(s.exc, ast.Call) else U(s.exc)
                if name not in ALLOWED_EXC and "." in f._qual and _handled_by_encloser(repo, f, name):
                    res.ok("R35.4", f"core.{f._qual} raises only ValueError/NotImplementedError", f"`raise {name}` in a nested helper whose every call is inside (or is the retry within) a handler for {name}", repo.loc(f, s))
                    continue
                res.require(name in ALLOWED_EXC, "R35.4", f"core.{f._qual} raises only ValueError/NotImplementedError", f"`raise {name}` on the API path", repo.loc(f, s), name)
            if isinstance(s, ast.Assert):
                # asserts of the entry layer on values other than parameters
                pass
    res.count("entry_layer_raise_sites", n_raise)
    if n_raise < 10:
        raise AnalysisError("R35.4: fewer raise sites than expected in core.py")


def _handled_by_encloser(repo, f, exc_name):
    """every call of nested helper ``f`` in its encloser sits in a try whose handler names
    ``exc_name``, or in the body of such a handler (the retry-after-repair idiom)"""
    outer = repo.mods[f._mod].funcs.get(f._qual.rsplit(".", 1)[0])
    if outer is None:
        return False
    calls = 0
    for s, g in stmts(outer):
        for c in ast.walk(s) if not isinstance(s, (ast.If, ast.For, ast.While, ast.Try, ast.With, ast.FunctionDef)) else []:
            if isinstance(c, ast.Call) and isinstance(c.func, ast.Name) and c.func.id == f.name:
                calls += 1
                ok = False
                for e, node in g:
                    if e == "try" and any(h.type is not None and exc_name in U(h.type) for h in node.handlers):
                        ok = True
                    if e == "except" and node.type is not None and exc_name in U(node.type):
                        ok = True
                if not ok:
                    return False
    return calls > 0


VARIANTS = [
    dict(name="slack-in-ls-violation-test", mod="util", expect="fire", rule="R35.9", old="            adjustment = nodes_time[c] - nodes_time[p]  # + epsilon", new="            adjustment = nodes_time[c] - nodes_time[p] + epsilon"),
] + [dict(v, rule="R35.8") for v in __import__("sa.rules.wiring", fromlist=["VARIANTS_FALSY"]).VARIANTS_FALSY] + [dict(v, rule="R35.7") for v in __import__("sa.rules.loopdef", fromlist=["VARIANTS"]).VARIANTS] + [dict(v, rule="R35.6") for v in __import__("sa.rules.wiring", fromlist=["VARIANTS"]).VARIANTS] + [
    dict(name="no-rate-guard", mod="core", expect="fire", rule="R35.1",
         old="        if mutation_rate is not None and not mutation_rate > 0.0:\n            raise ValueError(\"Mutation rate must be positive\")\n", new=""),
    dict(name="rate-guard-le", mod="core", expect="fire", rule="R35.1",
         old="        if mutation_rate is not None and not mutation_rate > 0.0:", new="        if mutation_rate is not None and mutation_rate < 0.0:"),
    dict(name="max-shape-assert", mod="core", expect="fire", rule="R35.2",
         old="        if not max_shape >= 1.0:\n            raise ValueError(\"Maximum shape parameter must be at least 1\")\n", new=""),
    dict(name="max-shape-guard-weaker", mod="core", expect="fire", rule="R35.2",
         old="        if not max_shape >= 1.0:", new="        if not max_shape > 0.0:"),
    dict(name="max-shape-guard-nan", mod="core", expect="fire", rule="R35.2",
         old="        if not max_shape >= 1.0:", new="        if max_shape < 1.0:"),
    dict(name="max-iter-guard", mod="core", expect="fire", rule="R35.1",
         old="        if not max_iterations > 0:\n            raise ValueError(\"Maximum number of EP iterations must be greater than 0\")\n", new=""),
    dict(name="mbl-guard-dropped", mod="core", expect="fire", rule="R35",
         old="            if not min_branch_length > 0.0:\n                raise ValueError(\"Minimum branch length must be positive\")\n", new=""),
    dict(name="constr-iter-guard", mod="core", expect="fire", rule="R35",
         old="            if not (isinstance(constr_iterations, int) and constr_iterations >= 0):", new="            if not isinstance(constr_iterations, int):"),
    dict(name="rescale-guard-dropped", mod="variational", expect="fire", rule="R35.2",
         old="        if rescale_intervals > 0 and rescale_iterations > 0:", new="        if rescale_iterations > 0:"),
    dict(name="eps-guard-dropped", mod="core", expect="fire", rule="R35.1",
         old="    if eps is not None:\n        raise ValueError(\n            \"The `eps` parameter has been disambiguated", new="    if eps is not None and False:\n        raise ValueError(\n            \"The `eps` parameter has been disambiguated"),
    dict(name="method-check-dropped", mod="core", expect="fire", rule="R35.1",
         old="    if method not in estimation_methods:\n        raise ValueError(f\"method must be one of {list(estimation_methods.keys())}\")\n", new=""),
    dict(name="raise-runtimeerror", mod="core", expect="fire", rule="R35.4",
         old="            raise ValueError(\"Outside maximization method requires mutation rate\")", new="            raise RuntimeError(\"Outside maximization method requires mutation rate\")"),
    dict(name="fit-always-returned", mod="core", expect="fire", rule="R35.4",
         old="        if self.return_fit:\n            ret.append(result.fit_object)", new="        if self.return_fit or self.return_likelihood:\n            ret.append(result.fit_object)"),
    dict(name="new-assert-on-api-param", mod="core", expect="fire", rule="R35.2",
         old="        fit_obj = self.main_algorithm(probability_space, eps, num_threads)\n        marginal_likl = fit_obj.inside_pass(cache_inside=cache_inside)\n        fit_obj.outside_maximization(eps=eps)",
         new="        assert eps > 0\n        fit_obj = self.main_algorithm(probability_space, eps, num_threads)\n        marginal_likl = fit_obj.inside_pass(cache_inside=cache_inside)\n        fit_obj.outside_maximization(eps=eps)"),
    dict(name="kernel-arg-none", mod="variational", expect="fire", rule="R35.3",
         old="            self.block_logconst,\n            max_shape,\n            min_step,\n            USE_BLOCK_LIKELIHOOD,", new="            self.block_logconst,\n            max_shape,\n            None,\n            USE_BLOCK_LIKELIHOOD,"),
    dict(name="kernel-int64-order", mod="variational", expect="fire", rule="R35.3",
         old="        self.block_order = np.arange(num_blocks, dtype=np.int32)", new="        self.block_order = np.arange(num_blocks)"),
    dict(name="twin-valueerror-message", mod="core", expect="silent",
         old="raise ValueError(\"Mutation rate must be positive\")", new="raise ValueError(\"mutation_rate must be > 0\")"),
    dict(name="twin-guard-order", mod="core", expect="silent",
         old="        if not max_iterations > 0:\n            raise ValueError(\"Maximum number of EP iterations must be greater than 0\")\n        if not max_shape >= 1.0:\n            raise ValueError(\"Maximum shape parameter must be at least 1\")\n",
         new="        if not max_shape >= 1.0:\n            raise ValueError(\"Maximum shape parameter must be at least 1\")\n        if not max_iterations > 0:\n            raise ValueError(\"Maximum number of EP iterations must be greater than 0\")\n"),
]
