"""C36 -- the prior cache is published atomically and never read half-written."""

import ast

from ..base import AnalysisError, Defs, U, own_nodes, stmts, walk_guarded

WRITERS = {"np.savetxt": 0, "np.save": 0, "np.savez": 0, "numpy.savetxt": 0, "np.savez_compressed": 0, "pickle.dump": 1, "json.dump": 1}
OPENERS = ("open", "io.open", "os.fdopen", "gzip.open")
READERS = ("np.genfromtxt", "np.loadtxt", "np.load", "numpy.genfromtxt", "numpy.loadtxt")
CACHE_FN = "get_precalc_cache"
UNIQUE_TMP = ("tempfile.mkstemp", "tempfile.NamedTemporaryFile", "mkstemp", "NamedTemporaryFile", "tempfile.mktemp")


def is_final(d, e):
    """True when the path expression is (a pure copy of) a get_precalc_cache(...) result"""
    return any(CACHE_FN + "(" in o for o in d.origins(e)) or CACHE_FN + "(" in U(e)


def derived_from_final(d, e):
    """the path expression is computed from (but is not) a get_precalc_cache(...) result"""
    e2 = d.inline(e)
    for n in ast.walk(e2):
        if isinstance(n, ast.Call) and U(n.func).endswith(CACHE_FN):
            return True
        if isinstance(n, ast.Name) and is_final(d, n):
            return True
    return False


def tmp_origin(d, e):
    """the mkstemp/NamedTemporaryFile call a path or fd originates from, else None"""
    for o in d.origins(e):
        if any(o.startswith(t + "(") for t in UNIQUE_TMP):
            return o
    if isinstance(e, ast.Name):
        for v in d.values(e.id):
            if not isinstance(v, ast.AST) and v[0] in ("unpack", "with"):
                src = v[1]
                if isinstance(src, ast.Call) and U(src.func) in UNIQUE_TMP:
                    return U(src)
            if isinstance(v, ast.Call) and U(v.func) in UNIQUE_TMP:
                return U(v)
            if isinstance(v, ast.Attribute) and v.attr == "name":
                return tmp_origin(d, v.value)
    if isinstance(e, ast.Attribute) and e.attr == "name":
        return tmp_origin(d, e.value)
    return None


def _sig_digits(fmt):
    """significant decimal digits kept by a printf float format; None when not a float format"""
    import re

    m = re.fullmatch(r"%[-+ #0]*\d*(?:\.(\d+))?([eEgGfF])", fmt)
    if not m:
        return None
    prec = int(m.group(1)) if m.group(1) is not None else 6
    kind = m.group(2).lower()
    if kind == "e":
        return prec + 1
    if kind == "g":
        return max(prec, 1)
    return None  # %f keeps a fixed number of decimals: not a guarantee on significant digits


def lossless_format(res, rid, repo, f, w, name):
    """the text written to the cache must read back as the very float64 values that the computing
    call returned (>= 17 significant digits), else the call that fills the cache and every later
    call / process that loads it work from different tables"""
    fn = U(w.func)
    if fn not in ("np.savetxt", "numpy.savetxt"):
        res.ok(rid, f"{name} cache writer keeps full precision", f"`{fn}` is a binary writer")
        return
    fmt = next((k.value for k in w.keywords if k.arg == "fmt"), w.args[2] if len(w.args) > 2 else None)
    if fmt is None:
        res.ok(rid, f"{name} cache writer keeps full precision", "np.savetxt default format %.18e round-trips float64", repo.loc(f, w))
        return
    if isinstance(fmt, ast.Constant) and isinstance(fmt.value, str):
        dg = _sig_digits(fmt.value)
        if dg is not None and dg >= 17:
            res.ok(rid, f"{name} cache writer keeps full precision", f"format {fmt.value!r} keeps {dg} significant digits", repo.loc(f, w))
        else:
            res.bad(rid, f"{name} cache writer keeps full precision", f"np.savetxt(..., fmt={fmt.value!r}) keeps {dg if dg is not None else 'a fixed number of decimal'} digits (< 17 significant): the table loaded from the cache differs from the one returned by the call that computed it, so identical calls give different dates before and after the cache exists", repo.loc(f, w))
    else:
        res.unres(rid, f"{name} cache writer keeps full precision", f"format `{U(fmt)}` is not a literal", repo.loc(f, w))


def run(repo, res):
    res.rule("R36.1", "atomic publish: no write goes straight to a path obtained from get_precalc_cache(); writes go to a per-writer-unique temporary in the same directory and are followed, after the file is closed/flushed, by os.replace(tmp, final)")
    res.rule("R36.2", "the reader of the cache either relies on R36.1 or validates the loaded table's shape and falls back to recomputation")
    res.rule("R36.3", "the table returned after a fresh computation is the very array that was written")
    res.rule("R36.4", "the cache text format is lossless for float64 (np.savetxt default or >= 17 significant digits): loading the cache gives exactly the table the computing call used")
    cls_funcs = [(q, f) for m, q, f in repo.all_funcs() if m == "prior"]
    # every writer / opener / reader in the package that touches a cache path
    n_writes = 0
    publishes = []
    for mname, q, f in repo.all_funcs():
        d = Defs(f)
        nodes = list(own_nodes(f))
        withs = {}  # file-object name -> (open call, With node)
        for n in nodes:
            if isinstance(n, ast.With):
                for it in n.items:
                    c = it.context_expr
                    if isinstance(c, ast.Call) and U(c.func) in OPENERS and it.optional_vars is not None:
                        withs[U(it.optional_vars)] = (c, n)
            if isinstance(n, ast.Assign) and isinstance(n.value, ast.Call) and U(n.value.func) in OPENERS:
                for t in n.targets:
                    withs[U(t)] = (n.value, None)
        for n in nodes:
            if not isinstance(n, ast.Call):
                continue
            fn = U(n.func)
            target = None
            if fn in WRITERS and len(n.args) > WRITERS[fn]:
                target = n.args[WRITERS[fn]]
            elif fn in OPENERS and n.args:
                mode = U(n.args[1]) if len(n.args) > 1 else next((U(k.value) for k in n.keywords if k.arg == "mode"), "'r'")
                if any(c in mode for c in "wax+"):
                    target = n.args[0]
            elif isinstance(n.func, ast.Attribute) and n.func.attr in ("write_text", "write_bytes", "tofile", "dump") and fn.split(".")[0] not in ("json", "pickle"):
                target = n.func.value if n.func.attr.startswith("write_") else (n.args[0] if n.args else None)
            if target is None:
                continue
            # follow a file object back to the path it was opened on
            path = target
            via = ""
            if U(target) in withs:
                path = withs[U(target)][0].args[0]
                via = f" through `{U(withs[U(target)][0])}`"
            if is_final(d, path):
                n_writes += 1
                res.bad("R36.1", f"{mname}.{q} write to the cache file name", f"`{U(n)[:70]}` writes directly to the final cache path{via}: a crash or a concurrent writer leaves a truncated or interleaved table under the name readers trust", repo.loc(f, n))
            elif tmp_origin(d, path) and (any(is_final(d, x) for x in _replace_targets(nodes)) or any(isinstance(x, ast.Call) and U(x.func).endswith(CACHE_FN) for x in nodes)):
                n_writes += 1
                publishes.append((f, n, path, d, nodes, withs.get(U(target))))
            elif derived_from_final(d, path):
                # a name computed from the final path (filename + ".tmp", f"{filename}.part"): every writer uses the same one
                n_writes += 1
                res.bad("R36.1", f"{mname}.{q} temporary file is unique to the writer", f"`{U(n)[:70]}` writes to `{U(d.inline(path))[:80]}`{via}, a fixed name derived from the cache path: two processes filling the cache at the same time share it, so one can truncate the file the other is about to publish with os.replace -- readers then load a partial table; use tempfile.mkstemp(dir=...)", repo.loc(f, n))
    # the publish protocol for each temp-file write
    for f, w, path, d, nodes, opened in publishes:
        name = f"{f._mod}.{f._qual}"
        tmpcall = tmp_origin(d, path)
        # same directory
        same_dir = "dir=" in tmpcall and ("os.path.dirname(" in tmpcall or ".parent" in tmpcall or "get_cache_dir" in tmpcall)
        if same_dir and "os.path.dirname(" in tmpcall:
            arg = tmpcall.split("os.path.dirname(")[1].split(")")[0]
            same_dir = is_final(d, ast.parse(arg, mode="eval").body)
        res.require(same_dir, "R36.1", f"{name} temporary is created in the cache directory", f"`{tmpcall}` is not created with dir=<directory of the final path>; os.replace across directories/filesystems is not atomic", repo.loc(f, w), tmpcall)
        reps = [n for n in nodes if isinstance(n, ast.Call) and U(n.func) in ("os.replace", "os.rename", "shutil.move") and len(n.args) == 2]
        good = [r for r in reps if tmp_origin(d, r.args[0]) and is_final(d, r.args[1])]
        if not good:
            res.bad("R36.1", f"{name} publishes the temporary with os.replace", "no os.replace(tmp, final) follows the write", repo.loc(f, w))
            continue
        r = good[0]
        res.require(U(r.func) == "os.replace", "R36.1", f"{name} publishes the temporary with os.replace", f"`{U(r.func)}` is not an atomic overwrite on every platform", repo.loc(f, r), U(r))
        # ordering: replace after the write, and after the file object is closed (outside the with) or flushed
        after = (r.lineno, r.col_offset) > (w.lineno, w.col_offset)
        closed = True
        if opened is not None and opened[1] is not None:
            wnode = opened[1]
            inside = wnode.lineno <= r.lineno <= wnode.end_lineno
            flushed = any(isinstance(n, ast.Call) and isinstance(n.func, ast.Attribute) and n.func.attr in ("flush", "close") and n.lineno < r.lineno and n.lineno > w.lineno for n in nodes)
            closed = (not inside) or flushed
        elif opened is not None:
            closed = any(isinstance(n, ast.Call) and isinstance(n.func, ast.Attribute) and n.func.attr == "close" and w.lineno < n.lineno < r.lineno for n in nodes)
        res.require(after and closed, "R36.1", f"{name} renames only after the data is written and the file closed", "os.replace happens before the write completes / while the file is still open and unflushed: the final name can expose a partial table", repo.loc(f, r))
        # the replace is on the success path: not inside an except handler / finally
        bad_ctx = False
        for s, g in stmts(f):
            if any(c is r for c in ast.walk(s)) and any(isinstance(e, str) and e == "except" for e, _ in g):
                bad_ctx = True
        res.require(not bad_ctx, "R36.1", f"{name} renames on the success path only", "os.replace sits in an exception handler", repo.loc(f, r))
        # R36.3
        arr = w.args[1] if U(w.func) in WRITERS and WRITERS[U(w.func)] == 0 and len(w.args) > 1 else None
        rets = [n for n in nodes if isinstance(n, ast.Return) and n.value is not None]
        if arr is not None and rets:
            same = all(U(x.value) == U(arr) for x in rets)
            rebound = isinstance(arr, ast.Name) and len([v for v in d.values(arr.id)]) > 1
            res.require(same and not rebound, "R36.3", f"{name} returns the array it wrote", f"writes `{U(arr)}` but returns `{U(rets[-1].value)}`" + (" (rebound)" if rebound else ""), repo.loc(f, rets[-1]), U(arr))
    # R36.4: every text writer in a function that handles the cache path
    n_fmt = 0
    for mname, q, f in repo.all_funcs():
        nodes = list(own_nodes(f))
        if not any(isinstance(x, ast.Call) and U(x.func).endswith(CACHE_FN) for x in nodes):
            continue
        for w in nodes:
            if isinstance(w, ast.Call) and U(w.func) in WRITERS:
                n_fmt += 1
                lossless_format(res, "R36.4", repo, f, w, f"{mname}.{q}")
    if n_fmt == 0:
        raise AnalysisError("R36.4: no writer of the prior cache found (anchor vanished)")
    if n_writes == 0:
        raise AnalysisError("R36.1: no write of the prior cache found (anchor vanished)")
    res.count("cache_write_sites", n_writes)
    # R36.2 reader
    atomic = not any(o["status"] == "violated" and o["rule"] == "R36.1" for o in res.obs)
    n_reads = 0
    for mname, q, f in repo.all_funcs():
        d = Defs(f)
        for s, g in stmts(f):
            if isinstance(s, ast.Assign) and isinstance(s.value, ast.Call) and U(s.value.func) in READERS and s.value.args and is_final(d, s.value.args[0]):
                n_reads += 1
                tgt = U(s.targets[0])
                validated = False
                for s2, g2 in stmts(f):
                    if isinstance(s2, ast.If) and s2.lineno > s.lineno and f"{tgt}.shape" in U(s2.test):
                        # fallback recomputes or raises
                        body = " ".join(U(x) for x in s2.body)
                        if "precalculate_priors_for_approximation" in body or "raise" in body:
                            validated = True
                if validated:
                    res.ok("R36.2", f"{mname}.{q} validates the loaded cache table", "shape test with recomputation fallback", repo.loc(f, s))
                elif atomic:
                    res.ok("R36.2", f"{mname}.{q} reads a cache that is only ever published atomically", "relies on R36.1", repo.loc(f, s))
                else:
                    res.bad("R36.2", f"{mname}.{q} validates the loaded cache table", f"`{U(s)}` is used without any shape check while the writer is not atomic: a truncated file loads silently as a shorter table", repo.loc(f, s))
    if n_reads == 0:
        raise AnalysisError("R36.2: no read of the prior cache found (anchor vanished)")
    res.count("cache_read_sites", n_reads)


def _replace_targets(nodes):
    return [n.args[1] for n in nodes if isinstance(n, ast.Call) and U(n.func) in ("os.replace", "os.rename", "shutil.move") and len(n.args) == 2]


_OLD_WRITE = '''        filename = self.get_precalc_cache(n)
        fd, tmp_filename = tempfile.mkstemp(dir=os.path.dirname(filename), suffix=".tmp")
        try:
            with os.fdopen(fd, "w") as f:
                np.savetxt(f, prior_lookup_table)
                f.flush()
                os.fsync(f.fileno())
            os.replace(tmp_filename, filename)
        except BaseException:
            if os.path.isfile(tmp_filename):
                os.remove(tmp_filename)
            raise
        return prior_lookup_table
'''
VARIANTS = [
    dict(name="predictable-temporary", mod="prior", expect="fire", rule="R36.1", old="        fd, tmp_filename = tempfile.mkstemp(dir=os.path.dirname(filename), suffix=\".tmp\")\n        try:\n            with os.fdopen(fd, \"w\") as f:", new="        tmp_filename = filename + \".tmp\"\n        try:\n            with open(tmp_filename, \"w\") as f:"),
    dict(name="cache-rounded-on-write", mod="prior", expect="fire", rule="R36.4", old="                np.savetxt(f, prior_lookup_table)\n", new="                np.savetxt(f, prior_lookup_table, fmt=\"%.9g\")\n"),
    dict(name="twin-cache-explicit-full-precision", mod="prior", expect="silent", old="                np.savetxt(f, prior_lookup_table)\n", new="                np.savetxt(f, prior_lookup_table, fmt=\"%.17e\")\n"),
    dict(name="direct-savetxt", mod="prior", expect="fire", rule="R36.1", old=_OLD_WRITE,
         new="        np.savetxt(self.get_precalc_cache(n), prior_lookup_table)\n        return prior_lookup_table\n"),
    dict(name="open-final-for-write", mod="prior", expect="fire", rule="R36.1", old=_OLD_WRITE,
         new="        filename = self.get_precalc_cache(n)\n        with open(filename, 'w') as f:\n            np.savetxt(f, prior_lookup_table)\n        return prior_lookup_table\n"),
    dict(name="replace-inside-with-unflushed", mod="prior", expect="fire", rule="R36.1",
         old="                np.savetxt(f, prior_lookup_table)\n                f.flush()\n                os.fsync(f.fileno())\n            os.replace(tmp_filename, filename)\n",
         new="                np.savetxt(f, prior_lookup_table)\n                os.replace(tmp_filename, filename)\n"),
    dict(name="tmp-in-other-dir", mod="prior", expect="fire", rule="R36.1",
         old='tempfile.mkstemp(dir=os.path.dirname(filename), suffix=".tmp")', new='tempfile.mkstemp(suffix=".tmp")'),
    dict(name="no-replace", mod="prior", expect="fire", rule="R36.1",
         old="            os.replace(tmp_filename, filename)\n", new="            shutil_copy = None\n"),
    dict(name="returns-other-array", mod="prior", expect="fire", rule="R36.3",
         old="            raise\n        return prior_lookup_table\n", new="            raise\n        return np.genfromtxt(filename)\n"),
    dict(name="twin-no-fsync", mod="prior", expect="silent",
         old="                f.flush()\n                os.fsync(f.fileno())\n", new=""),
    dict(name="twin-rename-locals", mod="prior", expect="silent",
         old=_OLD_WRITE, new=_OLD_WRITE.replace("tmp_filename", "tmpname").replace("fd,", "handle,").replace("fdopen(fd", "fdopen(handle")),
    dict(name="twin-reader-without-check-but-atomic", mod="prior", expect="silent",
         old="                if self.approx_priors.shape != (precalc_approximation_n, 2):\n                    # e.g. a file left incomplete by an older version: recompute\n                    self.approx_priors = self.precalculate_priors_for_approximation(\n                        precalc_approximation_n,\n                    )\n", new=""),
]
