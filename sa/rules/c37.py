"""C37 -- standalone rescaling works: typing clause (R37.1) + placement clause (R37.2)."""

import ast

from ..base import U, AnalysisError, Defs, stmts, store_targets, bool_guards
from .common import e2_rule


def run(repo, res):
    res.rule("R37.1", "E2: every argument of the numba kernels called by rescale_tree_sequence matches the kernel's explicit signature")
    res.rule("R37.2", "mutation times = midpoint of the two end nodes of the mutation's edge, overwritten by the node's time under the edge==NULL mask; tables pipeline sort<build_index<compute_mutation_parents<tree_sequence; sample times pass through the fixed mask")
    f = repo.fn("rescaling", "rescale_tree_sequence")
    e2_rule(repo, res, "R37.1", lambda caller, callee: caller is f, min_sites=2)
    r372(repo, res, f)


def r372(repo, res, f):
    d = Defs(f)
    loc = lambda n: repo.loc(f, n)  # noqa: E731
    # the value stored into tables.mutations.time
    st_time = None
    st_nodes = None
    order = []
    for s, g in stmts(f):
        for t in store_targets(s):
            txt = U(t)
            if txt.endswith("mutations.time"):
                st_time = s
            if txt.endswith("nodes.time"):
                st_nodes = s
        if isinstance(s, (ast.Expr, ast.Assign)) and isinstance(s.value, ast.Call) and isinstance(s.value.func, ast.Attribute):
            if s.value.func.attr in ("sort", "build_index", "compute_mutation_parents", "tree_sequence", "compute_mutation_times"):
                order.append((s.value.func.attr, s))
    if st_time is None or st_nodes is None:
        raise AnalysisError("R37.2: stores to tables.nodes.time / tables.mutations.time not found in rescale_tree_sequence")
    # (a) midpoint
    mt = st_time.value
    if not isinstance(mt, ast.Name):
        raise AnalysisError("R37.2: mutations.time is not stored from a local")
    vals = [v for v in d.values(mt.id) if isinstance(v, ast.AST)]
    ok_mid = False
    detail = "no definition"
    for v in vals:
        # (nodes_time[P] + nodes_time[C]) / 2
        if isinstance(v, ast.BinOp) and isinstance(v.op, ast.Div) and isinstance(v.right, ast.Constant) and v.right.value == 2 and isinstance(v.left, ast.BinOp) and isinstance(v.left.op, ast.Add):
            a, b = v.left.left, v.left.right
            if isinstance(a, ast.Subscript) and isinstance(b, ast.Subscript) and U(a.value) == U(b.value) == U(st_nodes.value):
                oa = d.origins(a.slice)
                ob = d.origins(b.slice)
                edges = {x.split("[")[0] for x in oa | ob}
                idx = {x[x.index("[") :] for x in oa | ob if "[" in x}
                if edges == {"ts.edges_parent", "ts.edges_child"} and len(idx) == 1:
                    # the index is the mutation->edge map from count_mutations
                    ok_mid = True
                    detail = f"{U(v)} with indices {sorted(oa | ob)}"
                else:
                    detail = f"end nodes are {sorted(oa | ob)}"
            else:
                detail = f"operands {U(a)} / {U(b)} do not index the rescaled node times `{U(st_nodes.value)}`"
        else:
            detail = f"not a midpoint: {U(v)}"
    res.require(ok_mid, "R37.2", "rescale_tree_sequence mutation time = midpoint of its edge's end nodes", detail, loc(st_time), detail)
    # (b) above-root overwrite under the edge == NULL mask with the node's own time
    ok_root = False
    det = "no masked overwrite of the mutation times found"
    for s, g in stmts(f):
        if isinstance(s, ast.Assign) and len(s.targets) == 1 and isinstance(s.targets[0], ast.Subscript) and U(s.targets[0].value) == mt.id:
            mask = s.targets[0].slice
            morig = d.origins(mask)
            v = s.value
            if any("== tskit.NULL" in o and "mutations_edge" in o.replace(" ", "") or "== tskit.NULL" in o for o in morig):
                if isinstance(v, ast.Subscript) and U(v.value) == U(st_nodes.value) and isinstance(v.slice, ast.Subscript) and U(v.slice.value) == "ts.mutations_node" and U(v.slice.slice) == U(mask):
                    ok_root = True
                    det = U(s)
                else:
                    det = f"masked overwrite stores {U(v)}, not the time of the mutation's own node under the same mask"
            else:
                det = f"overwrite mask {sorted(morig)} is not the edge == NULL mask"
    res.require(ok_root, "R37.2", "rescale_tree_sequence above-root mutations take their node's time", det, loc(st_time), det)
    # (c) pipeline order
    names = [n for n, _ in order]
    want = ["sort", "build_index", "compute_mutation_parents", "tree_sequence"]
    pos = [names.index(w) if w in names else -1 for w in want]
    okp = all(p >= 0 for p in pos) and pos == sorted(pos) and all(names.count(w) == 1 for w in want)
    lines = {n: s.lineno for n, s in order}
    okp = okp and max(st_time.lineno, st_nodes.lineno) < lines.get("sort", -1)
    res.require(okp, "R37.2", "rescale_tree_sequence tables pipeline", f"order found: {names}, column stores at lines {st_nodes.lineno},{st_time.lineno}", loc(f), f"{names}")
    # (d) fixed mask forwarded to piecewise_scale_point_estimate and derived from equal constraints
    okm = False
    detm = "piecewise_scale_point_estimate call not found"
    for n in ast.walk(f):
        if isinstance(n, ast.Call) and U(n.func) == "piecewise_scale_point_estimate" and len(n.args) >= 2:
            o = d.origins(n.args[1])
            okm = any("==" in x for x in o) and len(o) == 1
            detm = f"fixed mask originates from {sorted(o)}"
    res.require(okm, "R37.2", "rescale_tree_sequence sample mask reaches piecewise_scale_point_estimate", detm, loc(f), detm)


VARIANTS = [
    dict(name="constraints-for-mask", mod="rescaling", expect="fire", rule="R37.1",
         old="            mutations_span,\n            fixed_nodes,\n            ts.edges_parent,", new="            mutations_span,\n            constraints,\n            ts.edges_parent,"),
    dict(name="drop-copy-readonly-ok", mod="rescaling", expect="silent",
         old="    nodes_time = ts.nodes_time.copy()\n    for _ in np.arange(num_iterations):", new="    nodes_time = ts.nodes_time\n    for _ in np.arange(num_iterations):"),
    dict(name="column-slice-arg", mod="rescaling", expect="fire", rule="R37.1",
         old="            nodes_time, fixed_nodes, original_breaks, rescaled_breaks\n", new="            constraints[:, 0], fixed_nodes, original_breaks, rescaled_breaks\n"),
    dict(name="int64-parents", mod="rescaling", expect="fire", rule="R37.1",
         old="            fixed_nodes,\n            ts.edges_parent,\n            ts.edges_child,\n            num_intervals,", new="            fixed_nodes,\n            ts.edges_parent.astype(np.int64),\n            ts.edges_child,\n            num_intervals,"),
    dict(name="drop-argument", mod="rescaling", expect="fire", rule="R37.1",
         old="            ts.edges_child,\n            num_intervals,\n        )", new="            ts.edges_child,\n        )"),
    dict(name="midpoint-uses-parent-twice", mod="rescaling", expect="fire", rule="R37.2",
         old="    mutations_child = ts.edges_child[mutations_edge]", new="    mutations_child = ts.edges_parent[mutations_edge]"),
    dict(name="root-mask-inverted", mod="rescaling", expect="fire", rule="R37.2",
         old="    mutations_time[above_root] = nodes_time[ts.mutations_node[above_root]]", new="    mutations_time[~above_root] = nodes_time[ts.mutations_node[~above_root]]"),
    dict(name="no-sort", mod="rescaling", expect="fire", rule="R37.2",
         old="    tables.mutations.time = mutations_time\n    tables.sort()\n", new="    tables.mutations.time = mutations_time\n"),
    dict(name="twin-rename", mod="rescaling", expect="silent",
         old="    above_root = mutations_edge == tskit.NULL\n", new="    above_root = mutations_edge == tskit.NULL\n    logging_dummy = 0\n"),
]
