"""C38 -- ignore_oldest_root must select the root by input time, not by node numbering."""

import ast

from ..base import AnalysisError, Defs, U, bool_guards, own_nodes, stmts

COUNT_MARKERS = ("num_nodes", "num_edges", "num_samples", "num_mutations", "num_trees", "num_individuals", "len(")
TIME_MARKERS = ("nodes_time", ".time", "tree.time(", "node(")


def class_attr_defs(repo, mod, cname, attr):
    out = []
    for mm, cc in repo.mro(mod, cname):
        for q, f in repo.mods[mm].funcs.items():
            if q.startswith(cc + ".") and q.count(".") == 1:
                for n in own_nodes(f):
                    if isinstance(n, ast.Assign):
                        for t in n.targets:
                            if isinstance(t, ast.Attribute) and U(t.value) == "self" and t.attr == attr:
                                out.append((f, n.value))
    return out


def expand(repo, f, e, depth=5):
    """texts of the expression with locals and self attributes replaced by their definitions"""
    d = Defs(f)
    inl = d.inline(e)
    texts = {U(inl)}
    if depth <= 0:
        return texts
    for n in ast.walk(inl):
        if isinstance(n, ast.Attribute) and U(n.value) == "self" and f._cls:
            for g, v in class_attr_defs(repo, f._mod, f._cls, n.attr):
                texts |= expand(repo, g, v, depth - 1)
        if isinstance(n, ast.Name) and len(d.values(n.id)) > 1:
            for v in d.values(n.id):
                if isinstance(v, ast.AST):
                    texts |= expand(repo, f, v, depth - 1)
    return texts


def run(repo, res):
    res.rule("R38.1", "the operand compared with the edge's parent under ignore_oldest_root must be derived from the node-time column through argmax/max (restricted or not to roots) and must not be derived from a count such as num_nodes")
    res.rule("R38.2", "ignore_oldest_root reaches outside_pass unchanged from the API and only skips messages (a `continue`), it does not alter any other computation")
    f = repo.fn("discrete", "BeliefPropagation.outside_pass")
    if "ignore_oldest_root" not in [a.arg for a in f.args.kwonlyargs + f.args.args]:
        raise AnalysisError("outside_pass has no ignore_oldest_root parameter (anchor vanished)")
    sites = []
    for s, g in stmts(f):
        if not isinstance(s, ast.If):
            continue
        conds = [e for e, pol in bool_guards(g) if pol] + [s.test]
        if not any("ignore_oldest_root" in U(c) for c in conds):
            continue
        for c in ast.walk(s.test):
            if isinstance(c, ast.Compare) and len(c.ops) == 1:
                sides = [c.left, c.comparators[0]]
                par = [x for x in sides if isinstance(x, ast.Attribute) and x.attr == "parent"]
                if par:
                    other = sides[1] if sides[0] is par[0] else sides[0]
                    sites.append((s, c, other))
    if not sites:
        raise AnalysisError("R38.1: no comparison of an edge parent under ignore_oldest_root found in outside_pass")
    for s, c, other in sites:
        texts = expand(repo, f, other)
        joined = " | ".join(sorted(texts))
        has_count = any(m in t for t in texts for m in COUNT_MARKERS)
        has_time = any(m in t for t in texts for m in TIME_MARKERS) and any(k in t for t in texts for k in ("argmax", "max(", "argsort", "lexsort"))
        construct = f"discrete.BeliefPropagation.outside_pass ignore_oldest_root operand `{U(Defs(f).inline(other))}`"
        if not isinstance(c.ops[0], (ast.Eq, ast.NotEq, ast.In, ast.NotIn)):
            res.bad("R38.1", construct, f"ordering comparison `{U(c)}` between a node id and another value (node ids are opaque)", repo.loc(f, c))
        elif isinstance(c.ops[0], (ast.In, ast.NotIn)) and not has_time:
            res.bad("R38.1", construct, f"`{U(c)}`: membership in `{joined}` ignores every node of that collection, not exactly the one root with the greatest input time", repo.loc(f, c))
        elif not has_time and not has_count:
            res.bad("R38.1", construct, f"`{U(c)}`: the ignored node is `{joined}`, which is not derived from the node-time column through max/argmax: it is not 'the oldest root'", repo.loc(f, c))
        elif has_count and not has_time:
            res.bad("R38.1", construct, f"`{U(c)}`: the ignored node is `{joined}`, derived from a count and not from node times; renumbering nodes changes which messages are ignored", repo.loc(f, c))
        elif has_time and not has_count:
            res.ok("R38.1", construct, f"ignored node derives from node times: {joined}", repo.loc(f, c))
        else:
            res.unres("R38.1", construct, f"origin of `{U(other)}` not classified: {joined}", repo.loc(f, c))
        # R38.2 the guarded action is a bare skip
        body_ok = all(isinstance(x, (ast.Continue, ast.Pass)) for x in s.body) and not s.orelse
        res.require(body_ok, "R38.2", "outside_pass ignore_oldest_root branch only skips the message", f"branch body is `{U(s.body[0])[:60]}`", repo.loc(f, s))
    # wiring from the API
    io = repo.fn("core", "inside_outside")
    run_m = repo.fn("core", "InsideOutsideMethod.run")
    ok = False
    for n in own_nodes(run_m):
        if isinstance(n, ast.Call) and isinstance(n.func, ast.Attribute) and n.func.attr == "outside_pass":
            for k in n.keywords:
                if k.arg == "ignore_oldest_root" and U(k.value) == "ignore_oldest_root":
                    ok = True
    res.require(ok, "R38.2", "InsideOutsideMethod.run forwards ignore_oldest_root to outside_pass", "keyword not forwarded unchanged", repo.loc(run_m))
    ok2 = False
    d = Defs(io)
    for n in own_nodes(io):
        if isinstance(n, ast.Call) and isinstance(n.func, ast.Attribute) and n.func.attr == "run":
            for k in n.keywords:
                if k.arg == "ignore_oldest_root":
                    o = d.origins(k.value)
                    ok2 = o <= {"<param ignore_oldest_root>", "False"} and "<param ignore_oldest_root>" in o
    res.require(ok2, "R38.2", "inside_outside forwards ignore_oldest_root (default False)", "not forwarded unchanged", repo.loc(io))


VARIANTS = [
    dict(name="ignore-every-root", mod="discrete", expect="fire", rule="R38.1", old="                    if edge.parent == self.ts.num_nodes - 1:", new="                    if edge.parent in self.root_spans:"),
    dict(name="oldest-by-span", mod="discrete", expect="fire", rule="R38.1", old="                    if edge.parent == self.ts.num_nodes - 1:", new="                    if edge.parent == max(self.root_spans, key=self.root_spans.get, default=None):"),
    dict(name="time-based-selection", mod="discrete", expect="silent",
         old="                    if edge.parent == self.ts.num_nodes - 1:", new="                    if edge.parent == np.argmax(self.ts.nodes_time):"),
    dict(name="other-count", mod="discrete", expect="fire", rule="R38.1",
         old="                    if edge.parent == self.ts.num_nodes - 1:", new="                    if edge.parent == len(self.spans) - 1:"),
    dict(name="ordering-compare", mod="discrete", expect="fire", rule="R38.1",
         old="                    if edge.parent == self.ts.num_nodes - 1:", new="                    if edge.parent >= np.argmax(self.ts.nodes_time):"),
    dict(name="branch-does-more", mod="discrete", expect="fire", rule="R38.2",
         old="                    if edge.parent == self.ts.num_nodes - 1:\n                        continue", new="                    if edge.parent == np.argmax(self.ts.nodes_time):\n                        val = val * 0\n                        continue"),
    dict(name="flag-not-forwarded", mod="core", expect="fire", rule="R38.2",
         old="            standardize=outside_standardize, ignore_oldest_root=ignore_oldest_root\n", new="            standardize=outside_standardize, ignore_oldest_root=False\n"),
]
