"""helpers shared by rule modules"""

import ast

from ..base import AnalysisError, U
from ..e2 import E2

_cache = {}


def engine(repo, cls):
    k = (id(repo), cls)
    if k not in _cache:
        _cache.clear() if len(_cache) > 8 else None
        _cache[k] = cls(repo)
    return _cache[k]


def e2_rule(repo, res, rid, want, min_sites=1):
    """E2 conformance obligations for the Python-level kernel call sites selected by
    ``want(caller FunctionDef, callee def)``; one obligation per argument position and
    calling context."""
    e2 = engine(repo, E2)
    res.analysed["signature_typed_kernels"] = len(e2.sigs)
    sites = [s for s in e2.python_level_sites() if want(s[0], s[2])]
    if len(sites) < min_sites:
        raise AnalysisError(f"{rid}: {len(sites)} kernel call sites selected, expected at least {min_sites}")
    res.count(f"{rid}_call_sites", len(sites))
    for caller, call, callee in sites:
        ctxs = [("", None)] + e2.contexts(caller)
        seen = set()
        for label, pt in ctxs:
            for p, exp, act, verdict, why in e2.check_site(caller, call, callee, pt):
                # occurrence index distinguishes several calls of one kernel in one function
                occ = [c for (f, c, k) in sites if f is caller and k is callee].index(call)
                construct = f"{caller._mod}.{caller._qual} -> {callee.name}#{occ}({p})" + (f" via {label}" if label and verdict == "mismatch" else "")
                key = (construct, verdict, act)
                if key in seen:
                    continue
                seen.add(key)
                loc = repo.loc(caller, call)
                detail = f"expected {exp}, argument is {act}: {why}"
                if verdict == "ok":
                    res.ok(rid, construct, detail, loc)
                elif verdict == "mismatch":
                    res.bad(rid, construct, detail + " -> numba raises TypeError (no matching definition) on every call", loc)
                else:
                    res.unres(rid, construct, detail, loc)
    return sites


def find_calls(f, pred):
    from ..base import own_nodes

    return [n for n in own_nodes(f) if isinstance(n, ast.Call) and pred(n)]


def calls_named(f, *names):
    return find_calls(f, lambda c: U(c.func) in names or (isinstance(c.func, ast.Attribute) and c.func.attr in names))


def borrow(repo, res, module, from_rule, as_rule, text):
    """evaluate another property's rule module and adopt the obligations of one of its rules
    under a rule id of this property (shared structural clause, e.g. C03/C27)"""
    import importlib

    from .. import report

    tmp = report.Result("tmp", res.tier)
    importlib.import_module(f"sa.rules.{module}").run(repo, tmp)
    res.rule(as_rule, text)
    got = [o for o in tmp.obs if o["rule"] == from_rule]
    if not got:
        raise AnalysisError(f"{as_rule}: rule {from_rule} of {module} produced no obligation (anchor vanished)")
    for o in got:
        res._add(o["status"], as_rule, o["construct"], o["detail"], o["loc"])
    return got


def in_scope(scope, mod, qual):
    """scope: None (everything) or a list of 'module' / 'module.QualPrefix' entries naming the
    functions a shared rule is a necessary condition for under the property that runs it"""
    if scope is None:
        return True
    for e in scope:
        m, _, q = e.partition(".")
        if m == mod and (not q or qual == q or qual.startswith(q + ".") or qual.startswith(q)):
            return True
    return False
