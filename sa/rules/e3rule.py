"""shared rule body of C06 (homogeneity in T) and C07 (homogeneity in L)"""

import re

from ..base import AnalysisError
from ..e3 import IMPURE, L, ONE, RATE, TOP, ZERO, Const, Dim, Obj, Rec, T, Tup, strip
from ..e3run import T2, analyse

# reviewed sites (one named construct each, with the reason)
SUPPRESSED = {
    ("discrete.BeliefPropagation.__init__", "np.allclose(lik.timepoints, priors.timepoints)"):
        "guards an error path only (ValueError when a user-supplied prior grid differs from the likelihood grid); identical grids compare equal at every time scale, so dates are unaffected",
}

_cache = {}


def run_engine(repo):
    k = id(repo)
    if k not in _cache:
        _cache.clear()
        _cache[k] = analyse(repo)
    return _cache[k]


def exps(txt):
    """(T exponent, L exponent) of a repr such as 'T^-1*L' / '1' / 'T^2'; None when not a Dim"""
    if txt == "1":
        return (0, 0)
    if not re.fullmatch(r"[TL0-9^*/\-]+", txt):
        return None
    t = l = 0
    for part in txt.split("*"):
        m = re.fullmatch(r"([TL])(?:\^(-?\d+(?:/\d+)?))?", part)
        if not m:
            return None
        from fractions import Fraction

        e = Fraction(m.group(2)) if m.group(2) else 1
        if m.group(1) == "T":
            t += e
        else:
            l += e
    return (t, l)


def concerns(a, b, axis):
    ea, eb = exps(a), exps(b)
    if ea is None or eb is None:
        return True
    return ea[axis] != eb[axis]


def dim_of(v, axis):
    v = strip(v)
    if isinstance(v, Dim):
        return v.e[axis]
    return None


def check_oracle(res, rid, name, value, want, axis, loc=""):
    """declared output dimension on one axis (T or L exponent)"""
    v = strip(value)
    if isinstance(want, (list, tuple)):
        if isinstance(v, (Rec, Tup)) and len(v.items) == len(want):
            for i, (x, w) in enumerate(zip(v.items, want)):
                check_oracle(res, rid, f"{name}[{i}]", x, w, axis, loc)
        else:
            res.unres(rid, f"oracle {name}", f"value {value!r} is not a {len(want)}-column record", loc)
        return
    unit = "T" if axis == 0 else "L"
    if v is TOP or isinstance(v, Obj) or v is None:
        res.unres(rid, f"oracle {name}", f"dimension not inferred ({value!r})", loc)
    elif v is ZERO:
        res.ok(rid, f"oracle {name}", "polymorphic zero/nan", loc)
    elif v is IMPURE:
        res.bad(rid, f"oracle {name}", f"{name} depends on the logarithm of a dimensioned quantity: not homogeneous in {unit}", loc)
    elif isinstance(v, Dim):
        if v.e[axis] == want.e[axis]:
            res.ok(rid, f"oracle {name}", f"{v!r}: {unit}-exponent {v.e[axis]} as declared", loc)
        else:
            res.bad(rid, f"oracle {name}", f"{name} has dimension {v!r}; declared {unit}-exponent is {want.e[axis]}: the output does not rescale as the property requires", loc)
    else:
        res.unres(rid, f"oracle {name}", f"unexpected shape {value!r}", loc)


def run_axis(repo, res, axis, rid_flow, rid_oracle):
    unit = "T (time)" if axis == 0 else "L (genome length)"
    rep, it, results = run_engine(repo)
    res.analysed["functions_interpreted"] = len(rep.funcs)
    res.analysed["abstract_calls"] = rep.calls
    res.analysed["operations_checked_ok"] = rep.n_ok
    res.analysed["operations_touching_top"] = rep.n_top
    res.analysed["unmodelled_calls"] = dict(sorted(rep.unmodelled.items(), key=lambda kv: -kv[1])[:25])
    if rep.n_ok < 2500 or len(rep.funcs) < 150:
        raise AnalysisError(f"E3 covered only {rep.n_ok} operations in {len(rep.funcs)} functions (expected >= 2500 in >= 150)")
    # one obligation per interpreted function: all its dimension-constraining operations agree
    clashes = {}
    for fn, line, what, a, b, text in rep.obs:
        if not concerns(a, b, axis):
            continue
        clashes.setdefault(fn, {})[(what, a, b, text)] = line
    for fn in sorted(rep.funcs):
        n_ok, n_top = rep.ok_by_fn.get(fn, 0), rep.top_by_fn.get(fn, 0)
        bad = clashes.get(fn, {})
        real = {k: v for k, v in bad.items() if (fn, k[3]) not in SUPPRESSED}
        for (what, a, b, text), line in sorted(real.items(), key=lambda kv: kv[1]):
            res.bad(rid_flow, f"{fn} `{text}`", f"{what}: {a} vs {b} -- not homogeneous in {unit}; rescaling the inputs changes the result by more than the unit factor", f"tsdate/{fn.split('.')[0]}.py:{line} {fn.split('.', 1)[1]}")
        for (what, a, b, text), line in bad.items():
            if (fn, text) in SUPPRESSED:
                res.ok(rid_flow, f"{fn} `{text}` (reviewed)", "suppressed by name: " + SUPPRESSED[(fn, text)], f"tsdate/{fn.split('.')[0]}.py:{line}")
        if not real:
            if n_ok:
                res.ok(rid_flow, f"{fn} dimensionally consistent", f"{n_ok} operations agree" + (f", {n_top} touch unknown values" if n_top else ""))
            elif n_top:
                res.unres(rid_flow, f"{fn} dimensionally consistent", f"all {n_top} operations touch unknown values")
    # oracle: declared dimensions of the outputs
    def last(name):
        v = it.returns.get(name)
        return v if v else []

    for name, fields in (
        ("core.VariationalGammaMethod.run", dict(posterior_mean=T, posterior_var=T2, mutation_mean=T, mutation_var=T2)),
        ("core.InsideOutsideMethod.run", dict(posterior_mean=T, posterior_var=T2)),
        ("core.MaximizationMethod.run", dict(posterior_mean=T)),
    ):
        rs = last(name)
        if not rs:
            raise AnalysisError(f"E3 oracle: {name} was not interpreted")
        for i, r in enumerate(rs):
            for fld, want in fields.items():
                val = r.attrs.get(fld) if isinstance(r, Obj) else TOP
                check_oracle(res, rid_oracle, f"{name}#{i}.{fld}", val, want, axis)
    for i, r in enumerate(last("util.constrain_ages")):
        check_oracle(res, rid_oracle, f"util.constrain_ages#{i} result (output node times)", r, T, axis)
    eps = [o for n, o in it.objects if n == "ExpectationPropagation"]
    if not eps:
        raise AnalysisError("E3 oracle: no ExpectationPropagation instance was built")
    for o in eps[:1]:
        for attr in ("node_posterior", "mutation_posterior", "edge_likelihoods", "block_likelihoods", "sizebiased_likelihoods"):
            check_oracle(res, rid_oracle, f"variational.ExpectationPropagation.{attr} columns", o.attrs.get(attr, TOP), [ONE, RATE], axis)
        check_oracle(res, rid_oracle, "variational.ExpectationPropagation.node_constraints columns", o.attrs.get("node_constraints", TOP), [T, T], axis)
    for n, o in it.objects:
        if n == "NodeTimeValues" and "timepoints" in o.attrs and "grid_data" in o.attrs:
            check_oracle(res, rid_oracle, "node_time_class.NodeTimeValues.timepoints (grid)", o.attrs["timepoints"], T, axis)
            check_oracle(res, rid_oracle, "node_time_class.NodeTimeValues.grid_data (probabilities)", o.attrs["grid_data"], ONE, axis)
            break
    for n, o in it.objects:
        if n in ("Likelihoods", "LogLikelihoods"):
            check_oracle(res, rid_oracle, f"discrete.{n}.timediff", o.attrs.get("timediff", TOP), T, axis)
            check_oracle(res, rid_oracle, f"discrete.{n}.timediff_lower_tri", o.attrs.get("timediff_lower_tri", TOP), T, axis)
            break
