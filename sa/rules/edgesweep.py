"""Shared rule: edge-insertion / edge-removal sweeps keep their per-node tables paired.

The incremental tree sweeps (`_count_mutations`, `_mutation_frequency`) keep, per node, the edge
above it and its parent in NULL-initialised tables: the "edges in" loop sets them, the "edges out"
loop must reset *every one of them* to tskit.NULL.  A table that is set but not reset keeps a stale
edge for nodes that have become roots, so mutations above a local root are tallied on an edge the
node no longer has.  Symmetrically, additive per-node/per-edge accumulators updated with ``+=`` in
the insertion loop must be updated with ``-=`` in the removal loop on the same target shape.
"""

import ast

from ..base import AnalysisError, U, own_nodes

SWEEPS = (("rescaling", "_count_mutations"), ("phasing", "_mutation_frequency"))


def run(repo, res, rid):
    n = 0
    for mod, q in SWEEPS:
        if not repo.has_fn(mod, q):
            continue
        f = repo.fn(mod, q)
        nodes = list(own_nodes(f))
        null_tables = {s.targets[0].id for s in nodes if isinstance(s, ast.Assign) and len(s.targets) == 1 and isinstance(s.targets[0], ast.Name) and isinstance(s.value, ast.Call) and U(s.value.func) == "np.full" and len(s.value.args) >= 2 and "NULL" in U(s.value.args[1])}
        loops = {}
        for w in nodes:
            if isinstance(w, ast.While):
                t = U(w.test)
                kind = "out" if "remove" in t else "in" if "insert" in t else None
                if kind:
                    loops[kind] = w
        if set(loops) != {"in", "out"}:
            raise AnalysisError(f"{rid}: edge insertion / removal loops of {mod}.{q} not recognised")

        def table_stores(w):
            sets, resets = set(), set()
            for s in ast.walk(w):
                if isinstance(s, ast.Assign) and len(s.targets) == 1 and isinstance(s.targets[0], ast.Subscript) and U(s.targets[0].value) in null_tables:
                    (resets if "NULL" in U(s.value) else sets).add(U(s.targets[0].value))
            return sets, resets

        def accum(w):
            out = {}
            for s in ast.walk(w):
                if isinstance(s, ast.AugAssign) and isinstance(s.op, (ast.Add, ast.Sub)) and isinstance(s.target, ast.Subscript):
                    out.setdefault(U(s.target.value), set()).add(type(s.op).__name__)
            return out

        set_in, reset_in = table_stores(loops["in"])
        set_out, reset_out = table_stores(loops["out"])
        n += 1
        res.require(set_in == reset_out and not reset_in and not set_out, rid, f"{mod}.{q} every node table set by the edge-insertion loop is reset to NULL by the edge-removal loop", f"insertion sets {sorted(set_in)}, removal resets {sorted(reset_out)}: a table that is not reset keeps the edge/parent of a node that has become a local root, so mutations above that root are credited to a stale edge", repo.loc(f, loops["out"]), f"{sorted(set_in)}")
        ai, ao = accum(loops["in"]), accum(loops["out"])
        tabs = sorted(k for k in set(ai) | set(ao) if k not in ("a", "b"))
        ok = all(ai.get(k) == {"Add"} and ao.get(k) == {"Sub"} for k in tabs)
        res.require(ok, rid, f"{mod}.{q} accumulators incremented on insertion are decremented on removal", f"insertion: { {k: sorted(v) for k, v in ai.items()} }, removal: { {k: sorted(v) for k, v in ao.items()} }", repo.loc(f, loops["in"]), f"{tabs}")
    # singleton blocks: the block's start position moves with the edge pair
    if repo.has_fn("phasing", "_block_singletons"):
        from ..base import walk_guarded

        f = repo.fn("phasing", "_block_singletons")
        ins = [w for w in own_nodes(f) if isinstance(w, ast.While) and "insert" in U(w.test)]
        if len(ins) == 1:
            n += 1
            ge = gp = None
            for st, g in walk_guarded(ins[0].body):
                if isinstance(st, ast.Assign) and isinstance(st.targets[0], ast.Subscript):
                    b = U(st.targets[0].value)
                    conds = sorted((U(e), pol) for e, pol in g if not isinstance(e, str))
                    if b == "individuals_edges":
                        ge = conds
                    elif b == "individuals_position" and U(st.value) == "left":
                        gp = conds
            ok = ge is not None and gp is not None and ge == gp
            res.require(ok, rid, "phasing._block_singletons the block start position is reset whenever an inserted edge changes the individual's edge pair", f"edge pair is updated under {ge} but the start position `= left` under {gp}: a block whose second leaf edge starts later keeps the earlier start, so its span also covers the stretch where only one branch existed", repo.loc(f, ins[0]), f"{ge}")
    if n == 0:
        raise AnalysisError(f"{rid}: no edge sweep found (anchors vanished)")


VARIANTS = [
    dict(name="block-start-only-for-new-blocks", mod="phasing", expect="fire", old="                individuals_position[i] = left\n                if individuals_block[i] == tskit.NULL:\n                    individuals_block[i] = num_blocks\n", new="                if individuals_block[i] == tskit.NULL:\n                    individuals_block[i] = num_blocks\n                    individuals_position[i] = left\n"),
    dict(name="edge-table-not-reset", mod="rescaling", expect="fire", old="            nodes_edge[c] = tskit.NULL\n            nodes_parent[c] = tskit.NULL\n", new="            nodes_parent[c] = tskit.NULL\n"),
    dict(name="span-added-on-removal", mod="rescaling", expect="fire", old="                edges_span[e] -= remainder\n", new="                edges_span[e] += remainder\n"),
    dict(name="frequency-parent-not-reset", mod="phasing", expect="fire", old="            nodes_parent[c] = tskit.NULL\n            while p != tskit.NULL:\n                nodes_samples[p] -= nodes_samples[c]\n                p = nodes_parent[p]\n", new="            while p != tskit.NULL:\n                nodes_samples[p] -= nodes_samples[c]\n                p = nodes_parent[p]\n"),
]
