"""Extraction of the EP update groups of propagate_likelihood / propagate_mutations
(shared by C05, C18, C21): statement-shape matching resolved through def-use, not names."""

import ast

from ..base import AnalysisError, U, walk_guarded

DIR_OF_ARRAY = {0: "ROOTWARD", 1: "LEAFWARD"}  # parameter position of the node array -> direction


class Group:
    def __init__(self):
        self.conds = ()  # ((text, polarity), ...)
        self.block = []  # statements of the leaf block
        self.proj = None  # the Assign with the projection call
        self.proj_name = None
        self.proj_args = []
        self.targets = []  # store targets of the projection result
        self.defs = {}  # local name -> defining expr (within the block)


def leaf_blocks(stmts, conds=()):
    plain = [s for s in stmts if not isinstance(s, ast.If)]
    ifs = [s for s in stmts if isinstance(s, ast.If)]
    if plain and any(isinstance(s, (ast.Assign, ast.AugAssign)) for s in plain):
        yield conds, plain
    for i in ifs:
        yield from leaf_blocks(i.body, conds + ((U(i.test), True),))
        yield from leaf_blocks(i.orelse, conds + ((U(i.test), False),))


def kernel_loop(f):
    loops = [s for s in f.body if isinstance(s, ast.For)]
    if len(loops) != 1:
        raise AnalysisError(f"{f._qual}: expected one top-level loop")
    return loops[0]


def node_roles(f, loop):
    """local node variable -> 'parent' | 'child' from  p, c = edges_parent[i], edges_child[i]"""
    params = [a.arg for a in f.args.args]
    roles = {}
    for s in loop.body:
        if isinstance(s, ast.Assign) and isinstance(s.targets[0], ast.Tuple) and isinstance(s.value, ast.Tuple):
            for tg, v in zip(s.targets[0].elts, s.value.elts):
                if isinstance(tg, ast.Name) and isinstance(v, ast.Subscript) and isinstance(v.value, ast.Name) and v.value.id in params:
                    pname = v.value.id
                    if "parent" in pname:
                        roles[tg.id] = "parent"
                    elif "child" in pname:
                        roles[tg.id] = "child"
    if sorted(roles.values()) != ["child", "parent"]:
        raise AnalysisError(f"{f._qual}: parent/child node variables not recognised ({roles})")
    return roles


def groups(f):
    loop = kernel_loop(f)
    roles = node_roles(f, loop)
    out = []
    for conds, blk in leaf_blocks(loop.body):
        g = Group()
        g.conds, g.block = conds, blk
        for s in blk:
            if isinstance(s, ast.Assign) and len(s.targets) == 1 and isinstance(s.targets[0], ast.Name):
                g.defs[s.targets[0].id] = s.value
            if isinstance(s, ast.Assign) and isinstance(s.value, ast.Call) and U(s.value.func).endswith("_projection"):
                g.proj = s
                g.proj_name = U(s.value.func)
                g.proj_args = list(s.value.args)
                t = s.targets[0]
                g.targets = list(t.elts) if isinstance(t, ast.Tuple) else [t]
        if g.proj is not None:
            out.append(g)
    return loop, roles, out


def closure_dispatch(f):
    """closure name -> {True: approx function when unphased, False: otherwise}"""
    out = {}
    for s in f.body:
        if isinstance(s, ast.FunctionDef) and s.name.endswith("_projection"):
            d = {}
            for x in s.body:
                if isinstance(x, ast.If) and U(x.test) == "unphased" and isinstance(x.body[0], ast.Return):
                    d[True] = U(x.body[0].value.func)
                elif isinstance(x, ast.Return) and isinstance(x.value, ast.Call):
                    d.setdefault(False, U(x.value.func))
                    if True not in d and not any(isinstance(y, ast.If) for y in s.body):
                        d[True] = U(x.value.func) if any(isinstance(y, ast.Assert) and "unphased" in U(y.test) for y in s.body) else d[False]
            out[s.name] = d
        if isinstance(s, ast.Assign) and isinstance(s.targets[0], ast.Name) and s.targets[0].id.endswith("_projection"):
            out[s.targets[0].id] = {True: U(s.value), False: U(s.value)}
    return out
