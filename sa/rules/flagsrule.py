"""Shared rule: node flags are a bit field.

Whether a node is a sample is decided by ``ts.samples()`` or by testing the NODE_IS_SAMPLE *bit*;
tskit and tsinfer set further bits on sample nodes (e.g. tsinfer's NODE_IS_HISTORICAL_SAMPLE), so an
equality test of the whole flags word silently drops such samples from the fixed set (C03: their
times are then re-estimated) and makes the dates depend on bits that carry no topological
information (C08).  Every read of a flags value anywhere in the package must therefore be
  * an operand of a bitwise and/or (``np.bitwise_and(f, C)``, ``f & C``, ``f | C``, ``f[i] |= C``), or
  * moved as a whole (subscripted by an index array, passed to set_columns, assigned to a column),
and never an operand of ==, !=, an ordering comparison, ``np.isin``/``np.equal`` or arithmetic.
"""

import ast

from ..base import AnalysisError, Defs, U, own_nodes

FLAG_ATTRS = ("nodes_flags", "flags")
BIT_FUNCS = ("np.bitwise_and", "np.bitwise_or", "np.bitwise_xor", "numpy.bitwise_and")
CMP_FUNCS = ("np.equal", "np.not_equal", "np.isin", "np.in1d", "np.greater", "np.less", "np.array_equal")


def _is_flags_read(n):
    return isinstance(n, ast.Attribute) and n.attr in FLAG_ATTRS and isinstance(n.ctx, ast.Load)


def run(repo, res, rid, floor=5, scope=None):
    from .common import in_scope

    sites = 0
    for mod, q, f in repo.all_funcs():
        if not in_scope(scope, mod, q):
            continue
        m = repo.mods[mod]
        d = None
        for n in own_nodes(f):
            if not _is_flags_read(n):
                continue
            # locals that are plain copies / re-indexings of the flags value
            sites += 1
            carriers = [n]
            par = m.parent.get(n)
            # climb through subscripts: flags[idx]
            cur = n
            while isinstance(par, ast.Subscript) and par.value is cur:
                cur, par = par, m.parent.get(par)
            uses = [(cur, par)]
            # one level of local aliasing: x = <flags expr>; later uses of x
            if isinstance(par, ast.Assign) and par.value is cur and len(par.targets) == 1 and isinstance(par.targets[0], ast.Name):
                nm = par.targets[0].id
                uses = []
                for x in own_nodes(f):
                    if isinstance(x, ast.Name) and x.id == nm and isinstance(x.ctx, ast.Load):
                        c2, p2 = x, m.parent.get(x)
                        while isinstance(p2, ast.Subscript) and p2.value is c2:
                            c2, p2 = p2, m.parent.get(p2)
                        uses.append((c2, p2))
            bad = None
            for c, p in uses:
                if isinstance(p, ast.Compare):
                    bad = (p, "compared as a whole word")
                elif isinstance(p, ast.BinOp) and not isinstance(p.op, (ast.BitAnd, ast.BitOr, ast.BitXor)):
                    bad = (p, "used in arithmetic")
                elif isinstance(p, ast.Call) and U(p.func) in CMP_FUNCS and c in p.args:
                    bad = (p, f"passed to {U(p.func)}")
            construct = f"{mod}.{q} flags read `{U(cur)[:60]}`"
            if bad:
                res.bad(rid, construct, f"`{U(bad[0])[:100]}`: node flags {bad[1]}; flags are a bit field and samples may carry further bits (tsinfer marks historical samples), so such nodes silently stop being treated as samples -- test the NODE_IS_SAMPLE bit or use ts.samples()", repo.loc(f, n))
            else:
                res.ok(rid, construct, "bitwise test or whole-column move", repo.loc(f, n))
    if sites < floor:
        raise AnalysisError(f"{rid}: only {sites} node-flag reads found (expected >= {floor}); the rule's anchors vanished")
    res.count(f"{rid}_flag_reads", sites)


VARIANTS_C03 = [
    dict(name="flags-equality-in-constrain", mod="util", expect="fire", rule="R03.5", old="    nodes_fixed = np.bitwise_and(ts.nodes_flags, tskit.NODE_IS_SAMPLE).astype(bool)\n    constrained_nodes_time", new="    nodes_fixed = ts.nodes_flags == tskit.NODE_IS_SAMPLE\n    constrained_nodes_time"),
    dict(name="flags-equality-in-ep-init", mod="variational", expect="fire", rule="R03.5", old="        fixed_nodes = np.array(list(ts.samples()))", new="        fixed_nodes = np.flatnonzero(ts.nodes_flags == tskit.NODE_IS_SAMPLE)"),
    dict(name="twin-flags-bit-operator", mod="util", expect="silent", old="    nodes_fixed = np.bitwise_and(ts.nodes_flags, tskit.NODE_IS_SAMPLE).astype(bool)\n    constrained_nodes_time", new="    nodes_fixed = (ts.nodes_flags & tskit.NODE_IS_SAMPLE).astype(bool)\n    constrained_nodes_time"),
]
