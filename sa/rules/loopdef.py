"""Shared rule: a local that is bound only inside a counted loop and read after it needs the loop
to run at least once; every call site must establish that.

`for _ in range(n): x = ...` followed by a read of `x` raises UnboundLocalError when n == 0.  When
`n` is a parameter of the function, the obligation moves to the callers: each call must be
control-dependent on a test that implies `<argument> > 0` (or pass a positive literal / a value
validated as positive).  This is the shape behind `rescale(rescale_iterations=0)`: a documented
value of a public option that must turn the step off, not crash it.
"""

import ast

from ..base import AnalysisError, Defs, U, all_params, bool_guards, bind_args, own_nodes, stmts

MODULES = ("variational", "rescaling", "core", "phasing", "util")


def needs_positive(f):
    """{param: (loop, [locals read after the loop that only the loop binds])}"""
    out = {}
    params = set(all_params(f))
    body_stores = {}
    for n in own_nodes(f):
        if isinstance(n, ast.Name) and isinstance(n.ctx, ast.Store):
            body_stores.setdefault(n.id, []).append(n)
    for i, st in enumerate(f.body):
        if not isinstance(st, ast.For) or not isinstance(st.iter, ast.Call) or U(st.iter.func) not in ("range", "np.arange"):
            continue
        if len(st.iter.args) != 1 or not isinstance(st.iter.args[0], ast.Name) or st.iter.args[0].id not in params:
            continue
        inside = {x.id for x in ast.walk(st) if isinstance(x, ast.Name) and isinstance(x.ctx, ast.Store)}
        only_loop = {v for v in inside if all(any(x is s for s in ast.walk(st)) for x in body_stores.get(v, []))}
        later_reads = set()
        for later in f.body[i + 1 :]:
            for x in ast.walk(later):
                if isinstance(x, ast.Name) and isinstance(x.ctx, ast.Load) and x.id in only_loop:
                    later_reads.add(x.id)
        if later_reads:
            out[st.iter.args[0].id] = (st, sorted(later_reads))
    return out


def _positive(guards, txt):
    t = txt.replace(" ", "")
    for e, pol in bool_guards(guards):
        parts = [(e, pol)]
        if isinstance(e, ast.BoolOp) and ((isinstance(e.op, ast.And) and pol) or (isinstance(e.op, ast.Or) and not pol)):
            parts = [(v, pol) for v in e.values]
        for x, p in parts:
            s = U(x).replace(" ", "")
            if p and s in (f"{t}>0", f"{t}>=1", f"0<{t}", f"1<={t}"):
                return True
            if (not p) and s in (f"{t}<=0", f"{t}<1", f"{t}==0", f"not{t}>0"):
                return True
            if (not p) and isinstance(x, ast.UnaryOp) and isinstance(x.op, ast.Not) and U(x.operand).replace(" ", "") == f"{t}>0":
                return True
    return False


def run(repo, res, rid, floor=1):
    n = 0
    for mod in MODULES:
        if mod not in repo.mods:
            continue
        for q, f in repo.mods[mod].funcs.items():
            need = needs_positive(f)
            for param, (loop, vars_) in need.items():
                n += 1
                # all call sites in the package
                sites = []
                for m2, q2, g in repo.all_funcs():
                    for st, guards in stmts(g):
                        if isinstance(st, (ast.If, ast.For, ast.While, ast.With, ast.Try, ast.FunctionDef)):
                            continue
                        for c in ast.walk(st):
                            if isinstance(c, ast.Call) and f in repo.resolve_call(g, c):
                                sites.append((g, st, guards, c))
                if not sites:
                    res.unres(rid, f"{mod}.{q} needs {param} >= 1 ({', '.join(vars_)} bound only in its loop)", "no call site found in the package", repo.loc(f, loop))
                for g, st, guards, c in sites:
                    args = bind_args(c, f, method=bool(f._cls))
                    a = args.get(param)
                    construct = f"{g._mod}.{g._qual} -> {q}({param}) runs the loop that binds {', '.join(vars_)} at least once"
                    if a is None:
                        from ..base import param_default

                        dflt = param_default(f, param)
                        ok = isinstance(dflt, ast.Constant) and isinstance(dflt.value, (int, float)) and dflt.value >= 1
                        res.require(ok, rid, construct, f"{param} is not passed and its default `{U(dflt)}` is not a positive literal", repo.loc(g, c), f"default {U(dflt)}")
                    elif isinstance(a, ast.Constant) and isinstance(a.value, (int, float)):
                        res.require(a.value >= 1, rid, construct, f"literal {a.value} makes `{', '.join(vars_)}` unbound after the loop: UnboundLocalError", repo.loc(g, c), str(a.value))
                    else:
                        d = Defs(g)
                        cands = {U(a)} | {o for o in d.origins(a) if not o.startswith("<")} | {o[7:-1] for o in d.origins(a) if o.startswith("<param ")}
                        ok = any(_positive(guards, t) for t in cands)
                        res.require(ok, rid, construct, f"the call is not control-dependent on `{U(a)} > 0`: with {U(a)} == 0 (a documented way to switch the step off) `{', '.join(vars_)}` is read unbound after `for _ in range({param})` -> UnboundLocalError instead of a clean result", repo.loc(g, c), f"guarded by {U(a)} > 0")
    if n < floor:
        raise AnalysisError(f"{rid}: no counted loop binding a later-read local found (expected >= {floor}; anchors vanished)")
    res.count(f"{rid}_loop_defined_locals", n)


VARIANTS = [
    dict(name="rescale-without-iteration-guard", mod="variational", expect="fire", old="        if rescale_intervals > 0 and rescale_iterations > 0:", new="        if rescale_intervals > 0:"),
]
