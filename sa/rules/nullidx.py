"""Shared rule: an id that may be tskit.NULL (-1) is never used as an array index without a test.

numpy accepts -1 as an index (it addresses the *last* row), so an unguarded use does not crash:
a mutation above a root is silently tallied on the last edge of the table, a node without an
individual on the last individual, and so on.  Nullable values:
  * ``<m>.edge`` of a row obtained by iterating ``<ts>.mutations()`` and the column ``<ts>.mutations_edge``
  * elements of arrays this package itself fills with NULL: locals created by
    ``np.full(<n>, tskit.NULL ...)`` and kernel parameters / attributes called ``mutations_edge``,
    ``nodes_individual``
  * ``<tree>.parent(u)`` (NULL at a root)
  * a local bound to one of the above (one level of copy)
Sinks: ``A[x]`` / ``A[x, k]`` (load, store or augmented store) and ``np.add.at(A, x, ..)``,
``np.bincount(x ..)``.  A sink is discharged when it is control-dependent on ``x != tskit.NULL``
(or on the failing side of ``x == tskit.NULL``; a ``while x != NULL`` loop counts), or -- for
whole-array index expressions -- when it is one of the reviewed vectorised sites listed below,
which repair the NULL rows under an ``== tskit.NULL`` mask afterwards.
"""

import ast

from ..base import AnalysisError, U, bool_guards, own_nodes, stmts

NULLABLE_NAMES = {"mutations_edge", "nodes_individual", "mutation_edges"}
MODULES = ("discrete", "util", "variational", "rescaling", "phasing", "core", "prior")

# vectorised sites that index with a whole nullable column and patch the NULL rows afterwards
REVIEWED = {
    ("rescaling", "rescale_tree_sequence"): "mutations_parent/child are gathered for all mutations and the rows with mutations_edge == NULL are overwritten under the above_root mask (checked by R37.2)",
}


def _null_cmp(e, val_txt):
    """(polarity meaning 'value is not NULL') for a comparison of val_txt with tskit.NULL, else None"""
    if isinstance(e, ast.Compare) and len(e.ops) == 1:
        l, r = U(e.left), U(e.comparators[0])
        other = r if l == val_txt else l if r == val_txt else None
        if other in ("tskit.NULL", "NULL", "-1"):
            if isinstance(e.ops[0], ast.NotEq):
                return True
            if isinstance(e.ops[0], ast.Eq):
                return False
        # tskit.NULL < x (< n)
        if isinstance(e.ops[0], (ast.Lt,)) and l in ("tskit.NULL", "NULL", "-1") and r == val_txt:
            return True
        if isinstance(e.ops[0], (ast.Gt, ast.GtE)) and l == val_txt and r in ("tskit.NULL", "NULL", "-1", "0"):
            return True if isinstance(e.ops[0], ast.Gt) or r == "0" else None
    if isinstance(e, ast.Compare) and len(e.ops) == 2 and U(e.left) in ("tskit.NULL", "NULL", "-1") and isinstance(e.ops[0], ast.Lt) and U(e.comparators[0]) == val_txt:
        return True
    return None


def _guarded(guards, val_txt):
    for e, pol in bool_guards(guards):
        parts = [(e, pol)]
        # conjunctions on the taken side / disjunctions on the failing side decompose
        if isinstance(e, ast.BoolOp) and ((isinstance(e.op, ast.And) and pol) or (isinstance(e.op, ast.Or) and not pol)):
            parts = [(v, pol) for v in e.values]
        for x, p in parts:
            m = _null_cmp(x, val_txt)
            if m is not None and m == p:
                return True
    return False


def run(repo, res, rid, floor=6, scope=None):
    from .common import in_scope

    n_sinks = 0
    for mod in MODULES:
        if mod not in repo.mods:
            continue
        for q, f in repo.mods[mod].funcs.items():
            if not in_scope(scope, mod, q):
                continue
            nodes = list(own_nodes(f))
            # nullable arrays of this function
            arrays = set()
            for a in f.args.posonlyargs + f.args.args + f.args.kwonlyargs:
                if a.arg in NULLABLE_NAMES:
                    arrays.add(a.arg)
            mut_rows = set()
            for n in nodes:
                if isinstance(n, ast.Assign) and len(n.targets) == 1 and isinstance(n.targets[0], ast.Name) and isinstance(n.value, ast.Call):
                    if U(n.value.func) in ("np.full", "np.full_like") and any("tskit.NULL" in U(a) for a in n.value.args[1:2]):
                        arrays.add(n.targets[0].id)
                if isinstance(n, (ast.For, ast.comprehension)) and isinstance(n.target, ast.Name) and isinstance(n.iter, ast.Call) and U(n.iter.func).endswith(".mutations"):
                    mut_rows.add(n.target.id)

            def nullable_scalar(e):
                if isinstance(e, ast.Attribute) and e.attr == "edge" and isinstance(e.value, ast.Name) and e.value.id in mut_rows:
                    return True
                if isinstance(e, ast.Call) and isinstance(e.func, ast.Attribute) and e.func.attr == "parent" and len(e.args) == 1 and not e.keywords and isinstance(e.func.value, ast.Name):
                    return True  # Tree.parent(u) is NULL at a root
                if isinstance(e, ast.Subscript) and (U(e.value) in arrays or (isinstance(e.value, ast.Attribute) and e.value.attr in NULLABLE_NAMES)):
                    return True
                return False

            def nullable_array(e):
                if isinstance(e, ast.Attribute) and e.attr in ("mutations_edge", "mutation_edges", "nodes_individual", "mutations_parent") and not isinstance(e.ctx, ast.Store):
                    return True
                if isinstance(e, ast.Name) and e.id in arrays:
                    return True
                return False

            guards_of = {id(st): g for st, g in stmts(f)}

            def nested_stmts(st):
                yield st
                for fld in ("body", "orelse", "finalbody"):
                    for x in getattr(st, fld, []) or []:
                        if isinstance(x, ast.stmt):
                            yield from nested_stmts(x)
                for h in getattr(st, "handlers", []) or []:
                    for x in h.body:
                        yield from nested_stmts(x)

            def rebinds(st, name):
                for x in ast.walk(st):
                    if isinstance(x, ast.Name) and x.id == name and isinstance(x.ctx, ast.Store):
                        return True
                return False

            def header_exprs(st):
                if isinstance(st, (ast.If, ast.While)):
                    return [st.test]
                if isinstance(st, ast.For):
                    return [st.iter]
                if isinstance(st, (ast.With, ast.Try, ast.FunctionDef, ast.ClassDef)):
                    return []
                return [st]

            def short_circuit(root, node):
                """operands evaluated before ``node`` inside and/or chains of ``root``: [(expr, polarity)]"""
                out = []
                par = {}
                for p_ in ast.walk(root):
                    for c_ in ast.iter_child_nodes(p_):
                        par[id(c_)] = p_
                cur = node
                while id(cur) in par:
                    up = par[id(cur)]
                    if isinstance(up, ast.BoolOp):
                        k = next(i for i, v in enumerate(up.values) if v is cur)
                        out.extend((v, isinstance(up.op, ast.And)) for v in up.values[:k])
                    elif isinstance(up, ast.IfExp) and cur is not up.test:
                        out.append((up.test, cur is up.body))
                    cur = up
                return out

            def sinks_in(root, copies):
                for n in ast.walk(root):
                    idx = None
                    if isinstance(n, ast.Subscript):
                        cand = n.slice.elts if isinstance(n.slice, ast.Tuple) else [n.slice]
                        for c in cand:
                            if nullable_scalar(c) or (isinstance(c, ast.Name) and c.id in copies) or nullable_array(c):
                                idx = c
                    elif isinstance(n, ast.Call) and U(n.func) in ("np.add.at", "np.subtract.at") and len(n.args) >= 2:
                        c = n.args[1]
                        if nullable_scalar(c) or (isinstance(c, ast.Name) and c.id in copies) or nullable_array(c):
                            idx = c
                    elif isinstance(n, ast.Call) and U(n.func) == "np.bincount" and n.args and nullable_array(n.args[0]):
                        idx = n.args[0]
                    if idx is not None:
                        yield n, idx

            def judge(st, root, n, idx):
                nonlocal n_sinks
                n_sinks += 1
                txt = U(idx)
                construct = f"{mod}.{q} index `{U(n)[:70]}` by nullable `{txt}`"
                if nullable_array(idx):
                    why = REVIEWED.get((mod, q))
                    if why:
                        res.ok(rid, construct + " (reviewed)", why, repo.loc(f, n))
                    else:
                        res.bad(rid, construct, f"`{txt}` may contain tskit.NULL (-1), which numpy treats as the last row: entries without an edge/individual are silently credited to the last one; mask with `!= tskit.NULL` first", repo.loc(f, n))
                    return
                g = tuple(guards_of.get(id(st), ())) + tuple(short_circuit(root, n))
                if _guarded(g, txt):
                    res.ok(rid, construct, "dominated by a NULL test", repo.loc(f, n))
                else:
                    res.bad(rid, construct, f"`{txt}` may be tskit.NULL (-1) here (no dominating `!= tskit.NULL` test): numpy wraps -1 to the last row, so the value is silently credited to / read from the wrong element", repo.loc(f, n))

            seen = set()
            # (a) direct uses of nullable expressions / whole nullable columns anywhere
            for st, g in stmts(f):
                for root in header_exprs(st):
                    for n, idx in sinks_in(root, {}):
                        if id(n) not in seen:
                            seen.add(id(n))
                            judge(st, root, n, idx)
            # (b) uses of a local copy `i = <nullable>` in the statements that the copy reaches
            def blocks(node):
                for fld in ("body", "orelse", "finalbody"):
                    b = getattr(node, fld, None)
                    if isinstance(b, list) and b and isinstance(b[0], ast.stmt):
                        yield b
                        for x in b:
                            yield from blocks(x)
                for h in getattr(node, "handlers", []) or []:
                    yield h.body
                    for x in h.body:
                        yield from blocks(x)

            for blk in blocks(f):
                for k, d in enumerate(blk):
                    if not (isinstance(d, ast.Assign) and len(d.targets) == 1 and isinstance(d.targets[0], ast.Name) and nullable_scalar(d.value)):
                        continue
                    name = d.targets[0].id
                    for later in blk[k + 1 :]:
                        if isinstance(later, (ast.Assign, ast.AugAssign, ast.For)) and rebinds(later, name) and not isinstance(later, ast.For):
                            # the right-hand side still reads the old value
                            for n, idx in sinks_in(later.value, {name: 1}):
                                if isinstance(idx, ast.Name) and idx.id == name and id(n) not in seen:
                                    seen.add(id(n))
                                    judge(later, later.value, n, idx)
                            break
                        stop = False
                        for st in nested_stmts(later):
                            for root in header_exprs(st):
                                for n, idx in sinks_in(root, {name: 1}):
                                    if isinstance(idx, ast.Name) and idx.id == name and id(n) not in seen:
                                        seen.add(id(n))
                                        judge(st, root, n, idx)
                            if st is not later and rebinds(st, name) and isinstance(st, (ast.Assign, ast.For)):
                                stop = True
                        if stop or rebinds(later, name):
                            break
    if n_sinks < floor:
        raise AnalysisError(f"{rid}: only {n_sinks} nullable-index sites found (expected >= {floor})")
    res.count(f"{rid}_nullable_index_sites", n_sinks)


VARIANTS = [
    dict(name="mut-edge-unguarded-vectorised", mod="discrete", expect="fire", old="        for m in ts.mutations():\n            if m.edge != tskit.NULL:\n                mut_edges[m.edge] += 1\n", new="        np.add.at(mut_edges, ts.mutations_edge, 1)\n"),
    dict(name="mut-edge-guard-dropped", mod="util", expect="fire", old="        if mut.edge != tskit.NULL:\n            mutation_spans[mut.edge, 0] += 1", new="        mutation_spans[mut.edge, 0] += 1"),
    dict(name="skip-above-root-dropped", mod="variational", expect="fire", old="            if i == tskit.NULL:  # skip mutations above root\n                continue\n            p, c = edges_parent[i], edges_child[i]\n            if fixed[p] and fixed[c]:\n                child_age = constraints[c, 0]", new="            p, c = edges_parent[i], edges_child[i]\n            if fixed[p] and fixed[c]:\n                child_age = constraints[c, 0]"),
    dict(name="root-parent-unguarded", mod="util", expect="fire", old="                if node_selection == \"child\" or parent_node == tskit.NULL:", new="                if node_selection == \"child\":"),
    dict(name="twin-guard-as-continue", mod="util", expect="silent", old="        if mut.edge != tskit.NULL:\n            mutation_spans[mut.edge, 0] += 1", new="        if mut.edge == tskit.NULL:\n            continue\n        mutation_spans[mut.edge, 0] += 1"),
]
