"""Shared rule: rows of a NodeTimeValues grid are laid out in ``nonfixed_nodes`` order.

``grid_data[k]`` belongs to node ``nonfixed_nodes[k]``; that order is whatever the builder chose
(``fill_priors`` sorts the non-sample nodes by input time), NOT ascending node id.  A value
computed over whole ``grid_data`` arrays (element-wise arithmetic, axis-1 reductions, slices that
keep the row axis) is therefore in *row space*; it may be scattered into a node-indexed array only
through the very ``nonfixed_nodes`` array of the same object.  A boolean mask (``~is_fixed``,
``row_lookup >= 0``), ``np.arange`` or a sorted id list assigns the rows in ascending-id order and
silently gives each node another node's posterior whenever ids are not already time-ordered
(tsinfer output, renumbered or split tables).  Per-node access through ``obj[u]`` /
``row_lookup[u]`` is not affected.
"""

import ast

from ..base import AnalysisError, U, own_nodes

MODULES = ("core", "discrete", "node_time_class", "prior", "util")
FULL_REDUCERS = {"len", "np.shape", "np.ndim", "np.size", "type"}
ROW_KEEPING_ATTRS = {"sum", "max", "min", "mean", "prod", "cumsum", "copy", "astype", "T"}


def _row_sliced_away(sub):
    """grid_data[<first index>, ...]: True when the first index selects rows (not a full slice)"""
    sl = sub.slice
    first = sl.elts[0] if isinstance(sl, ast.Tuple) and sl.elts else sl
    return not (isinstance(first, ast.Slice) and first.lower is None and first.upper is None and first.step is None)


def _grid_receiver(e, tainted):
    """receiver text of a row-space occurrence inside e (None when e holds no row-space value)"""
    par = {}
    for p in ast.walk(e):
        for c in ast.iter_child_nodes(p):
            par[id(c)] = p
    for n in ast.walk(e):
        recv = None
        if isinstance(n, ast.Attribute) and n.attr == "grid_data" and isinstance(n.ctx, ast.Load):
            recv = U(n.value)
        elif isinstance(n, ast.Name) and n.id in tainted and isinstance(n.ctx, ast.Load):
            recv = tainted[n.id]
        if recv is None:
            continue
        # climb: stop being row space when rows are selected or everything is reduced away
        cur, ok = n, True
        while id(cur) in par:
            up = par[id(cur)]
            if isinstance(up, ast.Subscript) and up.value is cur and _row_sliced_away(up):
                ok = False
                break
            if isinstance(up, ast.Attribute) and up.value is cur and up.attr in ("shape", "dtype", "size", "ndim"):
                ok = False
                break
            if isinstance(up, ast.Call):
                fn = U(up.func)
                if fn in FULL_REDUCERS:
                    ok = False
                    break
                if fn in ("np.sum", "np.max", "np.min", "np.mean", "np.any", "np.all") and cur in up.args and not any(k.arg == "axis" for k in up.keywords) and len(up.args) < 2:
                    ok = False
                    break
                if isinstance(up.func, ast.Attribute) and up.func.value is cur and up.func.attr in ("sum", "max", "min", "mean", "any", "all") and not up.args and not any(k.arg == "axis" for k in up.keywords):
                    ok = False
                    break
            cur = up
        if ok:
            return recv
    return None


def run(repo, res, rid, floor=1, scope=None):
    from .common import in_scope

    n_scatter = 0
    for mod in MODULES:
        if mod not in repo.mods:
            continue
        for q, f in repo.mods[mod].funcs.items():
            if not in_scope(scope, mod, q):
                continue
            nodes = list(own_nodes(f))
            if not any(isinstance(n, ast.Attribute) and n.attr == "grid_data" for n in nodes):
                continue
            # locals holding row-space values (fix point over plain assignments)
            tainted = {}
            changed = True
            while changed:
                changed = False
                for n in nodes:
                    if isinstance(n, ast.Assign) and len(n.targets) == 1 and isinstance(n.targets[0], ast.Name) and n.targets[0].id not in tainted:
                        r = _grid_receiver(n.value, tainted)
                        if r is not None:
                            tainted[n.targets[0].id] = r
                            changed = True
            for n in nodes:
                if not (isinstance(n, (ast.Assign, ast.AugAssign))):
                    continue
                targets = n.targets if isinstance(n, ast.Assign) else [n.target]
                recv = _grid_receiver(n.value, tainted)
                if recv is None:
                    continue
                for t in targets:
                    if not isinstance(t, ast.Subscript):
                        continue
                    base = t.value
                    if isinstance(base, ast.Attribute) and base.attr == "grid_data":
                        continue  # grid -> grid, same layout
                    if isinstance(base, ast.Name) and base.id in tainted:
                        continue
                    sl = t.slice
                    first = sl.elts[0] if isinstance(sl, ast.Tuple) and sl.elts else sl
                    if isinstance(first, ast.Slice):
                        continue  # whole-array copy keeps row space
                    n_scatter += 1
                    want = f"{recv}.nonfixed_nodes"
                    construct = f"{mod}.{q} scatter of grid rows `{U(t)[:60]} = {U(n.value)[:50]}`"
                    if U(first) == want or (recv == "self" and U(first) == "self.nonfixed_nodes"):
                        res.ok(rid, construct, f"rows are assigned to nodes through `{want}`, the order they are stored in", repo.loc(f, n))
                    else:
                        res.bad(rid, construct, f"values computed over whole grid rows (row k belongs to node {want}[k]) are written to node positions selected by `{U(first)}`; a mask / arange / sorted index enumerates nodes in ascending id, so every node whose id order differs from the row order receives another node's posterior", repo.loc(f, n))
    if n_scatter < floor:
        raise AnalysisError(f"{rid}: {n_scatter} grid-row scatter sites found (expected >= {floor})")
    res.count(f"{rid}_row_scatter_sites", n_scatter)


_VEC = (
    "        mn_post[is_fixed] = ts.nodes_time[is_fixed]\n        va_post[is_fixed] = 0\n\n        for u in posterior.nonfixed_nodes:\n",
    "        mn_post[is_fixed] = ts.nodes_time[is_fixed]\n        va_post[is_fixed] = 0\n        w = posterior.grid_data / posterior.grid_data.sum(axis=1)[:, np.newaxis]\n        mn_post[~is_fixed] = (w * posterior.timepoints).sum(axis=1)\n\n        for u in posterior.nonfixed_nodes:\n",
)
VARIANTS = [
    dict(name="vectorised-moments-by-mask", mod="core", expect="fire", old=_VEC[0], new=_VEC[1]),
    dict(name="posterior-array-by-mask", mod="node_time_class", expect="fire", old="        result[self.nonfixed_nodes, :] = self.grid_data[:, :]", new="        result[self.row_lookup >= 0, :] = self.grid_data"),
    dict(name="twin-vectorised-moments-by-nonfixed", mod="core", expect="silent", old=_VEC[0], new=_VEC[1].replace("mn_post[~is_fixed] =", "mn_post[posterior.nonfixed_nodes] =")),
]
