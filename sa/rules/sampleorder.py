"""Shared rule: sample nodes are identified by ``ts.samples()`` / the NODE_IS_SAMPLE bit, never by
their *position* in the node table.

tskit does not require samples to be nodes ``0 .. n-1`` (tsinfer output before simplification,
``subset``-reordered tables, ancient samples added later); ``<ts>.num_samples`` is a count, not an
id boundary.  Definite misuse patterns, anywhere in the dating / preprocessing modules:
  P1  a slice bound that mentions num_samples           ``nodes_time[: ts.num_samples]``
  P2  an id range built from it                          ``np.arange(ts.num_samples, ts.num_nodes)``
  P3  an ordering comparison between a node id and it    ``index >= num_samples``
      (a node id = a name that indexes a node-indexed array or is passed to ts.node()/tree methods)
Counts (``approximate = ts.num_samples > N``, ``priors.add(ts.num_samples)``, sizes, the sample-set
range assertion of phasing) are fine and are not touched.
"""

import ast

from ..base import AnalysisError, Defs, U, own_nodes

MODULES = ("core", "discrete", "prior", "util", "variational", "rescaling", "phasing", "node_time_class", "demography")
NODE_ARRAYS = ("nodes_time", "nodes_flags", "nodes_individual", "nodes_population", "mn_post", "va_post", "datable_nodes", "nodes_fixed", "is_fixed")


def _mentions(e, d):
    """expression (locals inlined) reads <x>.num_samples as an attribute (not the Tree.num_samples(u) method)"""
    e = d.inline(e) if isinstance(e, ast.AST) else e
    for n in ast.walk(e):
        if isinstance(n, ast.Attribute) and n.attr == "num_samples":
            return True
    return False


def _is_method_call(mod, n):
    p = mod.parent.get(n)
    return isinstance(p, ast.Call) and p.func is n


_FIXTURE = """
def f(ts, nodes_time):
    a = nodes_time[: ts.num_samples]
    b = np.arange(ts.num_samples, ts.num_nodes)
    for index in range(ts.num_nodes):
        if index >= ts.num_samples:
            nodes_time[index] = 0
"""


def _fixture_ok():
    """a rule whose expected count on a healthy tree is zero must still match its positive example"""
    from .. import report
    from ..base import Mod

    class R:
        mods = {"util": Mod("util", "fixture", _FIXTURE)}

        @staticmethod
        def loc(f, n=None):
            return "fixture"

    tmp = report.Result("fixture")
    run(R, tmp, "RX", floor=1, scope=["util.f"])
    return len(tmp.violations()) == 3


def run(repo, res, rid, floor=3, scope=None):
    from .common import in_scope

    n_uses = 0
    for mname in MODULES:
        if mname not in repo.mods:
            continue
        mod = repo.mods[mname]
        for q, f in mod.funcs.items():
            if not in_scope(scope, mname, q):
                continue
            nodes = list(own_nodes(f))
            uses = [n for n in nodes if isinstance(n, ast.Attribute) and n.attr == "num_samples" and not _is_method_call(mod, n)]
            if not uses:
                continue
            n_uses += len(uses)
            d = Defs(f)
            # names that act as node ids in this function
            ids = set()
            for n in nodes:
                if isinstance(n, ast.Subscript) and isinstance(n.slice, ast.Name):
                    b = U(n.value)
                    if b.split(".")[-1] in NODE_ARRAYS or b.split(".")[-1].startswith("nodes_"):
                        ids.add(n.slice.id)
                if isinstance(n, ast.Call) and isinstance(n.func, ast.Attribute) and n.func.attr in ("node", "parent", "children", "is_sample", "time") and len(n.args) == 1 and isinstance(n.args[0], ast.Name):
                    ids.add(n.args[0].id)
            bad = []
            for n in nodes:
                if isinstance(n, ast.Subscript) and isinstance(n.slice, ast.Slice):
                    for bnd in (n.slice.lower, n.slice.upper):
                        if bnd is not None and _mentions(bnd, d):
                            bad.append((n, "P1", f"`{U(n)[:70]}` slices by num_samples: this selects the first n rows of the node table, which are the samples only for some inputs"))
                if isinstance(n, ast.Call) and U(n.func) in ("np.arange", "range", "numpy.arange") and any(_mentions(a, d) for a in n.args):
                    # a bare count range (e.g. bins 0..n) is fine; an id range is one that also reaches num_nodes or is used as an index
                    par = mod.parent.get(n)
                    as_index = isinstance(par, ast.Subscript) and par.slice is n
                    with_nodes = any("num_nodes" in U(d.inline(a)) for a in n.args)
                    stored_ids = isinstance(par, ast.Assign) and any(isinstance(t, ast.Name) and ("node" in t.id) for t in par.targets)
                    if as_index or with_nodes or stored_ids:
                        bad.append((n, "P2", f"`{U(n)[:70]}` builds node ids from num_samples: assumes the samples are nodes 0..n-1"))
                if isinstance(n, ast.Compare) and len(n.ops) == 1 and isinstance(n.ops[0], (ast.Lt, ast.LtE, ast.Gt, ast.GtE)):
                    l, r = n.left, n.comparators[0]
                    for a, b in ((l, r), (r, l)):
                        if isinstance(a, ast.Name) and a.id in ids and _mentions(b, d):
                            bad.append((n, "P3", f"`{U(n)[:70]}` orders the node id `{a.id}` against num_samples: sample membership by position in the node table"))
            for n, pat, why in bad:
                res.bad(rid, f"{mname}.{q} {pat} `{U(n)[:60]}`", why + "; use ts.samples() or the NODE_IS_SAMPLE bit", repo.loc(f, n))
            if not bad:
                res.ok(rid, f"{mname}.{q} uses num_samples as a count only", f"{len(uses)} use(s)", repo.loc(f, uses[0]))
    if floor == 0 and not _fixture_ok():
        raise AnalysisError(f"{rid}: the positive fixture of the sample-order rule was not recognised (rule broken)")
    if n_uses < floor:
        raise AnalysisError(f"{rid}: only {n_uses} reads of num_samples found (expected >= {floor})")
    res.count(f"{rid}_num_samples_reads", n_uses)


VARIANTS = [
    dict(name="nonsample-ids-by-position", mod="prior", expect="fire", old="    datable_nodes = np.ones(ts.num_nodes, dtype=bool)\n    datable_nodes[ts.samples()] = False\n    datable_nodes = np.where(datable_nodes)[0]\n\n    # convert timepoints", new="    datable_nodes = np.arange(ts.num_samples, ts.num_nodes)\n\n    # convert timepoints"),
    dict(name="sample-times-by-slice", mod="core", expect="fire", old="            unique_sample_ages = np.unique(ts.nodes_time[list(ts.samples())])", new="            unique_sample_ages = np.unique(ts.nodes_time[: ts.num_samples])"),
    dict(name="sample-test-by-id-order", mod="util", expect="fire", old="        if index not in tree_sequence.samples():", new="        if index >= tree_sequence.num_samples:"),
]
