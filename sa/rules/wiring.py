"""Shared rule: no public parameter is accepted and silently ignored.

For every public entry point (the four dating functions, the method classes' __init__ and run, and
preprocess_ts / split_disjoint_nodes / the site-time helpers) each named parameter must be *read* in
the function body: forwarded in a call, tested in a guard, stored on self.  A parameter that is never
read is an option the caller can set with no effect -- e.g. `date(..., set_metadata=False)` writing
metadata anyway because the wrapper forgot to pass it on.  `locals()` captures (provenance) do not
count as a read.  Deprecated parameters that are only rejected count as read (they are tested).
"""

import ast

from ..base import AnalysisError, U, all_params, own_nodes

ENTRY_POINTS = [
    ("core", "date"), ("core", "variational_gamma"), ("core", "inside_outside"), ("core", "maximization"),
    ("core", "EstimationMethod.__init__"), ("core", "VariationalGammaMethod.run"), ("core", "InsideOutsideMethod.run"), ("core", "MaximizationMethod.run"),
    ("core", "DiscreteTimeMethod.main_algorithm"),
    ("util", "preprocess_ts"), ("util", "split_disjoint_nodes"), ("util", "sites_time_from_ts"), ("util", "constrain_ages"),
    ("prior", "prior_grid"), ("prior", "MixturePrior.__init__"), ("prior", "MixturePrior.make_discretised_prior"),
    ("rescaling", "rescale_tree_sequence"), ("rescaling", "count_mutations"),
    ("variational", "ExpectationPropagation.__init__"), ("variational", "ExpectationPropagation.infer"), ("variational", "ExpectationPropagation.rescale"), ("variational", "ExpectationPropagation.iterate"),
]


# parameters that only steer progress display: ignoring one cannot change a result
DISPLAY_ONLY = {"progress"}


def run(repo, res, rid, only=None, floor=15):
    n = 0
    for mod, q in ENTRY_POINTS:
        if not repo.has_fn(mod, q):
            continue
        f = repo.fn(mod, q)
        n += 1
        reads = {x.id for x in own_nodes(f) if isinstance(x, ast.Name) and isinstance(x.ctx, ast.Load)}
        # reads inside nested closures count too
        for x in ast.walk(f):
            if isinstance(x, ast.Name) and isinstance(x.ctx, ast.Load):
                reads.add(x.id)
        params = [p for p in all_params(f) if p not in ("self", "cls")]
        if f.args.kwarg:
            params.append(f.args.kwarg.arg)
        for p in params:
            if only and p not in only:
                continue
            if p in DISPLAY_ONLY:
                continue
            construct = f"{mod}.{q} parameter `{p}` is used"
            if p in reads:
                res.ok(rid, construct, "read in the body", repo.loc(f))
            else:
                res.bad(rid, construct, f"`{p}` is accepted by {q} but never read: the caller's value has no effect (not forwarded, not validated); a `locals()` capture for provenance does not use it", repo.loc(f))
    if n < floor:
        raise AnalysisError(f"{rid}: only {n} entry points found (expected >= {floor})")
    res.count(f"{rid}_entry_points", n)


VARIANTS = [
    dict(name="date-drops-set-metadata", mod="core", expect="fire", old="        set_metadata=set_metadata,\n        record_provenance=record_provenance,\n        **kwargs,\n    )", new="        record_provenance=record_provenance,\n        **kwargs,\n    )"),
]


def falsy_defaults(repo, res, rid, floor=15):
    """`x = x or DEFAULT` (or `self.x = x or DEFAULT`) on a public parameter replaces every falsy
    value -- 0, 0.0, False, '' -- by the default, not just None: an explicitly given 0 is then neither
    used nor rejected.  None-defaults must be replaced through `is None`."""
    n = 0
    for mod, q in ENTRY_POINTS:
        if not repo.has_fn(mod, q):
            continue
        f = repo.fn(mod, q)
        n += 1
        params = set(all_params(f))
        found = False
        for x in own_nodes(f):
            if isinstance(x, ast.BoolOp) and isinstance(x.op, ast.Or) and isinstance(x.values[0], ast.Name) and x.values[0].id in params and len(x.values) == 2:
                par = repo.mods[mod].parent.get(x)
                if isinstance(par, (ast.Assign, ast.keyword, ast.Call, ast.Return)):
                    found = True
                    res.bad(rid, f"{mod}.{q} `{U(x)}` default for `{x.values[0].id}`", f"`{U(x)}` replaces every falsy value of `{x.values[0].id}` (0, 0.0, False) by the default: an explicit 0 is silently ignored instead of being used or rejected with ValueError; test `is None`", repo.loc(f, x))
        if not found:
            res.ok(rid, f"{mod}.{q} replaces None defaults through `is None`", "no `param or default` expression", repo.loc(f))
    if n < floor:
        raise AnalysisError(f"{rid}: only {n} entry points found (expected >= {floor})")


VARIANTS_FALSY = [
    dict(name="max-iterations-falsy-default", mod="core", expect="fire", old="    if max_iterations is None:\n        max_iterations = DEFAULT_MAX_ITERATIONS\n", new="    max_iterations = max_iterations or DEFAULT_MAX_ITERATIONS\n"),
]
