"""
Thorough tier: checker self-validation on in-memory variants of the *current* sources.

Each rule module may define ``VARIANTS`` (list of dicts) and/or ``variants(repo)``
(generator of dicts).  A variant has
    name, expect ('fire' | 'silent'), optional rule (expected rule id),
and either  mod/old/new (textual edit that must match exactly once) or
``overrides`` ({module: full new source}).
A 'fire' variant must still compile and must make the rules report a violation that the
unmodified tree does not have (with the named rule when given); a 'silent' variant is a
behaviour-preserving twin and must add no violation and no analysis error.  Variants
whose anchor text is not present any more are counted as skipped, never as failures.
Nothing is written to disk and nothing is executed.
"""

import concurrent.futures as cf
import importlib

from . import report
from .base import AnalysisError, Repo


def _collect(pid, repo):
    mod = importlib.import_module(f"sa.rules.{pid.lower()}")
    out = list(getattr(mod, "VARIANTS", []))
    gen = getattr(mod, "variants", None)
    if gen:
        out.extend(gen(repo))
    return out


def _apply(repo, v):
    if "overrides" in v:
        return v["overrides"]
    edits = v.get("edits") or [(v["mod"], v["old"], v["new"])]
    over = {}
    for mod, old, new in edits:
        src = over.get(mod, repo.mods[mod].src if mod in repo.mods else None)
        if src is None or src.count(old) != 1:
            return None
        over[mod] = src.replace(old, new)
    return over


def _one(args):
    pid, root, v, base_keys = args
    try:
        repo0 = Repo(root)
        over = _apply(repo0, v)
        if over is None:
            return (v["name"], "skipped", "anchor text not present")
        for m, src in over.items():
            try:
                compile(src, m, "exec")
            except SyntaxError as e:
                return (v["name"], "skipped", f"variant does not compile: {e}")
        res = report.Result(pid, "thorough")
        err = None
        try:
            repo = Repo(root, overrides=over)
            importlib.import_module(f"sa.rules.{pid.lower()}").run(repo, res)
        except AnalysisError as e:
            err = str(e)
        new = [k for k in res.keys3() if k not in base_keys]
        if v["expect"] == "fire":
            if v.get("rule"):
                hit = [k for k in new if k[0] == v["rule"] or k[0].startswith(v["rule"])]
            else:
                hit = new
            if hit:
                return (v["name"], "detected", f"{hit[0][0]} {hit[0][1]}")
            if err and v.get("accept_error"):
                return (v["name"], "detected", f"fail-closed: {err}")
            return (v["name"], "MISSED", err or f"no new violation (new={new})")
        else:
            if err:
                return (v["name"], "NOISY", f"analysis error on twin: {err}")
            if new:
                return (v["name"], "NOISY", f"twin raised {new[0][0]} {new[0][1]}")
            return (v["name"], "silent", "")
    except Exception as e:  # pragma: no cover
        import traceback

        return (v["name"], "ERROR", f"{type(e).__name__}: {e} {traceback.format_exc()[-400:]}")


def run(pid, repo, res, jobs=16):
    vs = _collect(pid, repo)
    base_keys = res.keys3()
    work = [(pid, repo.root, v, base_keys) for v in vs]
    results = []
    if work:
        if jobs > 1 and len(work) > 3:
            with cf.ProcessPoolExecutor(max_workers=min(jobs, len(work))) as ex:
                results = list(ex.map(_one, work))
        else:
            results = [_one(w) for w in work]
    summary = dict(
        variants=len(results),
        detected=sum(r[1] == "detected" for r in results),
        silent_twins=sum(r[1] == "silent" for r in results),
        skipped=sum(r[1] == "skipped" for r in results),
        failed=[f"{r[0]}: {r[1]} {r[2]}" for r in results if r[1] in ("MISSED", "NOISY", "ERROR")],
        detail=[dict(name=r[0], outcome=r[1], info=r[2]) for r in results],
    )
    for r in results:
        if r[1] in ("MISSED", "NOISY", "ERROR"):
            print(f"SELFVAL-WARNING {pid} {r[0]}: {r[1]} {r[2]}")
    sk = [r[0] for r in results if r[1] == "skipped"]
    if sk:
        print(f"{pid} self-validation skipped (anchor text absent): {sk}")
    print(
        f"{pid} self-validation: {summary['variants']} variants, {summary['detected']} detected, "
        f"{summary['silent_twins']} silent twins, {summary['skipped']} skipped, {len(summary['failed'])} failed"
    )
    return summary
