#!/bin/sh
# nothing to build or install: the analysers are pure stdlib Python run by /venv/bin/python.
# Self-test: the engines must load and analyse the current tree.
cd "$(dirname "$0")" && /venv/bin/python -B -c "
import sys; sys.path.insert(0, '.')
from sa.base import Repo
r = Repo(); print('parsed', len(r.mods), 'modules, digest', r.digest)
"
