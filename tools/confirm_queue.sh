#!/bin/sh
# confirm_queue.sh <parallel> <dir>... : run confirm_seed.py over the dirs, <parallel> at a time
P=$1; shift
printf '%s\n' "$@" | xargs -P "$P" -I{} sh -c '[ -f {}/confirm.json ] || /verif/tools/confirm_seed.py {} --jobs 5 > {}/confirm.log 2>&1; echo done {}'
