#!/venv/bin/python
"""Confirm a sub-agent's seeded change before it is kept under /verif/seeded.

usage: confirm_seed.py <dir with patch.diff + demo.py> [--no-suite] [--jobs N]

In a fresh scratch worktree of /repo (under /tmp/wt, removed afterwards):
  1. demo.py on the clean tree must exit 0
  2. patch.diff must apply; the package must still import; demo.py must exit non-zero
  3. the full, unedited test suite must pass with the change (470 passed)
  4. every registered check is run against the changed tree (VERIF_REPO=<worktree>) and the
     ones that exit 1 (VIOLATION) / 2 (ANALYSIS-ERROR) are listed
Writes <dir>/confirm.json.
"""
import json, os, re, subprocess, sys, time

VERIF = os.path.dirname(os.path.dirname(os.path.abspath(__file__)))
PY = "/venv/bin/python"


def sh(cmd, cwd=None, env=None, timeout=3600):
    t = time.time()
    try:
        r = subprocess.run(cmd, cwd=cwd, env=env, capture_output=True, text=True, timeout=timeout)
        return r.returncode, (r.stdout + r.stderr), time.time() - t
    except subprocess.TimeoutExpired as e:
        return 124, f"TIMEOUT {e}", time.time() - t


def run_checks(wt):
    man = json.load(open(os.path.join(VERIF, "MANIFEST.json")))
    fired = {}
    for c in man["checks"]:
        p = c["property_id"]
        env = dict(os.environ, VERIF_REPO=wt, VERIF_NO_EVIDENCE="1")
        rc, out, _ = sh([os.path.join(VERIF, "check"), p], env=env)
        if rc != 0:
            lines = [l for l in out.splitlines() if l.startswith("  ") or "ANALYSIS-ERROR" in l]
            fired[p] = {"exit": rc, "first": [l.strip()[:300] for l in lines[:3]]}
    return fired


def main():
    d = os.path.abspath(sys.argv[1])
    suite = "--no-suite" not in sys.argv
    jobs = sys.argv[sys.argv.index("--jobs") + 1] if "--jobs" in sys.argv else "8"
    name = "cf_" + re.sub(r"\W", "_", os.path.relpath(d, "/tmp"))[-40:]
    wt = f"/tmp/wt/{name}"
    sh(["git", "-C", "/repo", "worktree", "remove", "--force", wt])
    rc, out, _ = sh([os.path.join(VERIF, "tools", "mkwt.sh"), name])
    assert rc == 0, out
    res = {"dir": d, "worktree": wt, "env": "PYTHONPATH=<worktree> TSDATE_ENABLE_NUMBA_CACHE=1"}
    # numba on-disk cache (the repository's own switch): kernels are compiled once per worktree instead of
    # once per pytest worker / demo process; it changes compile time only
    env = dict(os.environ, PYTHONPATH=wt, TSDATE_ENABLE_NUMBA_CACHE="1")
    try:
        rc, out, t = sh([PY, os.path.join(d, "demo.py")], cwd=wt, env=env, timeout=900)
        res["demo_clean"] = {"exit": rc, "secs": round(t, 1), "tail": out[-400:]}
        rc, out, _ = sh(["git", "-C", wt, "apply", os.path.join(d, "patch.diff")])
        res["apply"] = {"exit": rc, "out": out[-300:]}
        if rc == 0:
            rc, out, _ = sh([PY, "-c", "import tsdate, tsdate.cli"], cwd=wt, env=env)
            res["import"] = rc
            rc, out, t = sh([PY, os.path.join(d, "demo.py")], cwd=wt, env=env, timeout=900)
            res["demo_patched"] = {"exit": rc, "secs": round(t, 1), "tail": out[-600:]}
            res["checks_fired"] = run_checks(wt)
            if suite:
                rc, out, t = sh([PY, "-m", "pytest", "-q", "-p", "no:cacheprovider", "--timeout=900", "-n", jobs],
                                cwd=wt, env=env, timeout=5400)
                last = [l for l in out.splitlines() if re.search(r"\d+ (passed|failed|error)", l)]
                res["suite"] = {"exit": rc, "secs": round(t), "summary": last[-1] if last else out[-300:],
                                "failed": [l for l in out.splitlines() if l.startswith(("FAILED", "ERROR"))][:10], "tail": out[-2500:] if rc else ""}
        ok = (res["demo_clean"]["exit"] == 0 and res.get("apply", {}).get("exit") == 0 and res.get("import") == 0
              and res.get("demo_patched", {}).get("exit", 0) != 0 and (not suite or res["suite"]["exit"] == 0))
        res["confirmed"] = bool(ok)
    finally:
        sh(["git", "-C", "/repo", "worktree", "remove", "--force", wt])
        sh(["git", "-C", "/repo", "worktree", "prune"])
    json.dump(res, open(os.path.join(d, "confirm.json"), "w"), indent=1)
    print(json.dumps({k: res[k] for k in res if k not in ("dir", "worktree")}, indent=1))
    return 0 if res.get("confirmed") else 1


sys.exit(main())
