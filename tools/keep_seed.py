#!/venv/bin/python
"""Copy confirmed sub-agent changes from /tmp/seedout/<prop>/<a|b> into /verif/seeded/<prop>_<a|b>/
(patch.diff, demo.py, notes.md, meta.json).  Only directories whose confirm.json says confirmed."""
import json, os, shutil, sys, glob, re
V = os.path.dirname(os.path.dirname(os.path.abspath(__file__)))
kept = 0
for d in sorted(glob.glob("/tmp/seedout/C*/[ab]")) + sorted(glob.glob("/tmp/seedout3/C*/[ab]")) + sorted(glob.glob("/tmp/seedout4/C*/[ab]")):
    cj = os.path.join(d, "confirm.json")
    if not os.path.exists(cj):
        continue
    c = json.load(open(cj))
    if not c.get("confirmed"):
        continue
    prop, var = d.split("/")[-2:]
    if "/seedout3/" in d:  # third round: second agent for the same property
        var = {"a": "c", "b": "d"}[var]
    if "/seedout4/" in d:  # fourth round
        var = {"a": "e", "b": "f"}[var]
    out = os.path.join(V, "seeded", f"{prop}_{var}")
    os.makedirs(out, exist_ok=True)
    for fn in ("patch.diff", "demo.py", "notes.md"):
        if os.path.exists(os.path.join(d, fn)):
            shutil.copy(os.path.join(d, fn), os.path.join(out, fn))
    notes = open(os.path.join(d, "notes.md")).read() if os.path.exists(os.path.join(d, "notes.md")) else ""
    files = sorted(set(re.findall(r"^\+\+\+ b/(\S+)", open(os.path.join(d, "patch.diff")).read(), re.M)))
    meta_path = os.path.join(out, "meta.json")
    old = json.load(open(meta_path)) if os.path.exists(meta_path) else {}
    meta = dict(
        property=prop,
        origin="written by an independent sub-agent that saw only the property text and a scratch worktree of /repo",
        files=files,
        needs_to_manifest=old.get("needs_to_manifest") or "see notes.md (the agent's own description of the specific input / option combination / call sequence)",
        what_i_ran=dict(
            environment=c.get("env"),
            demo_on_clean_tree=f"exit {c['demo_clean']['exit']} ({c['demo_clean']['secs']} s)",
            demo_with_patch=f"exit {c['demo_patched']['exit']} ({c['demo_patched']['secs']} s): " + c["demo_patched"]["tail"].strip().splitlines()[-1][:200] if c["demo_patched"]["tail"].strip() else "",
            full_suite_with_patch=c.get("suite", {}).get("summary"),
            command="tools/confirm_seed.py <dir>: fresh worktree of /repo under /tmp/wt, demo.py, git apply patch.diff, import check, demo.py, `pytest -q -p no:cacheprovider --timeout=900 -n 5` (unedited suite)",
        ),
        checks=old.get("checks", []),
    )
    for k in ("expected_undetected", "detected_by", "analysis_errors", "verdict"):
        if k in old:
            meta[k] = old[k]
    json.dump(meta, open(meta_path, "w"), indent=1)
    kept += 1
print("kept", kept)
