#!/venv/bin/python
import json, os, sys
V = os.path.dirname(os.path.dirname(os.path.abspath(__file__)))
sys.path.insert(0, V)
from sa import registry

props = [json.loads(l)["id"] for l in open(os.path.join(V, "properties.jsonl"))]
checks, na = [], []
for pid in props:
    built = os.path.exists(os.path.join(V, "sa", "rules", pid.lower() + ".py"))
    if pid in registry.CHECKS and built:
        c = registry.CHECKS[pid]
        checks.append(dict(
            property_id=pid,
            quick_cmd=f"./check {pid} --tier quick",
            thorough_cmd=f"./check {pid} --tier thorough",
            evidence_file=f"evidence/{pid}.json",
            replay_cmd_template=f"./check {pid} --replay {{path}}",
            engine="sa",
            level_claimed=dict(category="other", text=c["text"] + registry.EXTRA.get(pid, ""), design_ref=c["ref"]),
            level_note=c["note"],
            technique=c["technique"],
        ))
    elif pid in registry.NOT_APPLICABLE:
        na.append(dict(property_id=pid, reason=registry.NOT_APPLICABLE[pid]))
    else:
        na.append(dict(property_id=pid, reason="static check designed (DESIGN.md §2) but not yet built in this tree; not claimed until it is"))
man = dict(
    version=1,
    setup_cmd="./setup.sh",
    hooks=dict(
        guard="TSDATE_VERIF",
        enable="none needed: the checks read /repo/tsdate/*.py as text; no hook was added to the repository",
        baseline_off_cmd="cd /repo && /venv/bin/python -m pytest -q -p no:cacheprovider --timeout=900 -n 8",
        source_commits=[],
        add_only=True,
    ),
    engines=[dict(name="sa", path="sa/", serves_properties=[c["property_id"] for c in checks],
                  kind_free_text="repository-specific static analysers over the Python AST (program model, call graph, guards/path enumeration, numba-signature conformance, dimension inference, tskit access classification)")],
    checks=checks,
    not_applicable=na,
    notes="All checks are static analysis (stdlib ast) of /repo/tsdate/*.py at run time; exit 0 held, 1 VIOLATION, 2 ANALYSIS-ERROR (fail closed). Known findings: known_findings.json.",
)
json.dump(man, open(os.path.join(V, "MANIFEST.json"), "w"), indent=1)
print(f"{len(checks)} checks, {len(na)} not applicable")
