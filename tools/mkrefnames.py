#!/venv/bin/python
"""Regenerate sa/refnames.json (shape signatures of every local of every function, see
sa/norm.py N3) from the current /repo tree.  Run by hand when the rules are re-based on a new
revision of tsdate; never at check time."""
import ast, json, os, sys
sys.path.insert(0, os.path.dirname(os.path.dirname(os.path.abspath(__file__))))
from sa import norm
root = os.path.join(os.environ.get("VERIF_REPO", "/repo"), "tsdate")
trees = {}
for fn in sorted(os.listdir(root)):
    if fn.endswith(".py"):
        t = ast.parse(open(os.path.join(root, fn)).read())
        norm.normalise(t, fn[:-3], names=False)
        trees[fn[:-3]] = t
tab = norm.reference_table(trees)
out = os.path.join(os.path.dirname(os.path.dirname(os.path.abspath(__file__))), "sa", "refnames.json")
json.dump(tab, open(out, "w"), indent=0, sort_keys=True)
print("functions with locals:", sum(len(v) for k, v in tab.items() if k != "__shapes__"), "shape tables:", sum(len(v) for v in tab["__shapes__"].values()))
