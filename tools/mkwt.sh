#!/bin/sh
# mkwt.sh <name> [<property-id>]: scratch git worktree of /repo at /tmp/wt/<name> (outside /repo and /verif)
# with the git-ignored _version.py copied and, if given, the property's text as PROPERTY.json.
set -e
N=$1; P=${2:-}
mkdir -p /tmp/wt /tmp/seedout
git -C /repo worktree add --detach /tmp/wt/$N HEAD >/dev/null 2>&1
cp /repo/tsdate/_version.py /tmp/wt/$N/tsdate/
if [ -n "$P" ]; then
  /venv/bin/python - "$P" "/tmp/wt/$N/PROPERTY.json" <<'PY'
import json, sys
for l in open('/verif/properties.jsonl'):
    p = json.loads(l)
    if p['id'] == sys.argv[1]:
        p = {k: p[k] for k in ('id', 'title', 'statement', 'quantifier', 'why_tests_cant', 'anchors')}
        json.dump(p, open(sys.argv[2], 'w'), indent=1)
PY
fi
echo /tmp/wt/$N
