#!/venv/bin/python
"""print a source file with docstrings and blank lines elided (reading aid)"""
import ast, sys
fn = sys.argv[1]
lo = int(sys.argv[2]) if len(sys.argv) > 2 else 1
hi = int(sys.argv[3]) if len(sys.argv) > 3 else 10**9
src = open(fn).read()
tree = ast.parse(src)
skip = set()
for n in ast.walk(tree):
    if isinstance(n, (ast.FunctionDef, ast.ClassDef, ast.Module)):
        b = n.body
        if b and isinstance(b[0], ast.Expr) and isinstance(b[0].value, ast.Constant) and isinstance(b[0].value.value, str):
            skip.update(range(b[0].lineno, b[0].end_lineno + 1))
for i, l in enumerate(src.splitlines(), 1):
    if lo <= i <= hi and i not in skip and l.strip():
        print(f"{i:5d} {l}")
