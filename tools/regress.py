#!/venv/bin/python
"""Re-introduce each repaired defect (reverse of a fix: commit, kept in /verif/regress/*.fixdiff)
and each seeded change (/verif/seeded/*/patch.diff) on a scratch copy of /repo/tsdate and check
that the named property check reports a violation.  Scratch copies live under a temp dir and
are removed.  usage: regress.py [name-substring]"""
import json, os, shutil, subprocess, sys, tempfile, glob

VERIF = os.path.dirname(os.path.dirname(os.path.abspath(__file__)))
MAP = {
    "c37_constraints_arg": ["C37"], "c24_assert_ne": ["C24"], "c01_absorbed_eps": ["C01"],
    "c23_flip_before_rescale": ["C23"], "c35_mutation_rate_guard": ["C35"], "c35_max_shape_assert": ["C35"],
    "c36_direct_savetxt": ["C36"], "c34_cli_bool_split": ["C34"],
}

def run_variant(name, patch, reverse, props):
    tmp = tempfile.mkdtemp(prefix="vrg_")
    try:
        shutil.copytree("/repo/tsdate", os.path.join(tmp, "tsdate"))
        cmd = ["patch", "-p1", "-s", "-d", tmp] + (["-R"] if reverse else []) + ["-i", patch]
        r = subprocess.run(cmd, capture_output=True, text=True)
        if r.returncode != 0:
            return [(name, p, "PATCH-FAILED", r.stdout[-200:]) for p in props]
        out = []
        allp = props
        if os.environ.get("REGRESS_ALL"):
            man = json.load(open(os.path.join(VERIF, "MANIFEST.json")))
            allp = props + [c["property_id"] for c in man["checks"] if c["property_id"] not in props]
        for p in allp:
            env = dict(os.environ, VERIF_REPO=tmp, VERIF_NO_EVIDENCE="1")
            r = subprocess.run([os.path.join(VERIF, "check"), p], capture_output=True, text=True, env=env)
            v = [l for l in r.stdout.splitlines() if l.startswith("VIOLATION")]
            first = [l for l in r.stdout.splitlines() if l.startswith("  ")][:1]
            if p in props:
                out.append((name, p, "detected" if r.returncode == 1 and v else f"MISSED(exit {r.returncode})", (first or [""])[0][:160]))
            elif r.returncode != 0:
                out.append((name, p, f"detected-also(exit {r.returncode})", (first or [l for l in r.stdout.splitlines() if "ANALYSIS-ERROR" in l] or [""])[0][:160]))
        return out
    finally:
        shutil.rmtree(tmp, ignore_errors=True)

def main():
    sel = sys.argv[1] if len(sys.argv) > 1 else ""
    rows = []
    for fn in sorted(glob.glob(os.path.join(VERIF, "regress", "*.fixdiff"))):
        name = os.path.basename(fn)[:-8]
        if sel in name:
            rows += run_variant(name, fn, True, MAP.get(name, []))
    for d in sorted(glob.glob(os.path.join(VERIF, "seeded", "*"))):
        meta = os.path.join(d, "meta.json")
        if os.path.exists(meta) and sel in os.path.basename(d):
            m = json.load(open(meta))
            props = m.get("checks") or [m["property"]]
            rows += run_variant("seeded/" + os.path.basename(d), os.path.join(d, "patch.diff"), False, props)
    bad = 0
    for r in rows:
        print(f"{r[0]:38s} {r[1]} {r[2]:10s} {r[3]}")
        bad += not r[2].startswith("detected")
    print(f"{len(rows)} runs, {bad} missed")
    return 1 if bad else 0

sys.exit(main())
