#!/venv/bin/python
"""Re-introduce each repaired defect (reverse of a fix: commit, kept in /verif/regress/*.fixdiff)
and each seeded change (/verif/seeded/*/patch.diff) on a scratch copy of /repo/tsdate and check
that the named property check reports a violation.  Scratch copies live under a temp dir and
are removed.  usage: regress.py [name-substring]"""
import json, os, shutil, subprocess, sys, tempfile, glob

VERIF = os.path.dirname(os.path.dirname(os.path.abspath(__file__)))
MAP = {
    "c37_constraints_arg": ["C37"], "c24_assert_ne": ["C24"], "c01_absorbed_eps": ["C01"],
    "c23_flip_before_rescale": ["C23"], "c35_mutation_rate_guard": ["C35"], "c35_max_shape_assert": ["C35"],
    "c36_direct_savetxt": ["C36"], "c34_cli_bool_split": ["C34"],
}

def run_variant(name, patch, reverse, props):
    tmp = tempfile.mkdtemp(prefix="vrg_")
    try:
        shutil.copytree("/repo/tsdate", os.path.join(tmp, "tsdate"))
        cmd = ["patch", "-p1", "-s", "-d", tmp] + (["-R"] if reverse else []) + ["-i", patch]
        r = subprocess.run(cmd, capture_output=True, text=True)
        if r.returncode != 0:
            return [(name, p, "PATCH-FAILED", r.stdout[-200:]) for p in props]
        out = []
        allp = props
        if os.environ.get("REGRESS_ALL"):
            man = json.load(open(os.path.join(VERIF, "MANIFEST.json")))
            allp = props + [c["property_id"] for c in man["checks"] if c["property_id"] not in props]
        for p in allp:
            env = dict(os.environ, VERIF_REPO=tmp, VERIF_NO_EVIDENCE="1")
            r = subprocess.run([os.path.join(VERIF, "check"), p], capture_output=True, text=True, env=env)
            v = [l for l in r.stdout.splitlines() if l.startswith("VIOLATION")]
            first = [l for l in r.stdout.splitlines() if l.startswith("  ")][:1]
            if p in props:
                out.append((name, p, "detected" if r.returncode == 1 and v else f"MISSED(exit {r.returncode})", (first or [""])[0][:160]))
            elif r.returncode != 0:
                out.append((name, p, f"detected-also(exit {r.returncode})", (first or [l for l in r.stdout.splitlines() if "ANALYSIS-ERROR" in l] or [""])[0][:160]))
        return out
    finally:
        shutil.rmtree(tmp, ignore_errors=True)

def record_seeded(sel):
    """run every registered check on every kept seeded change and store what fires in its meta.json"""
    import concurrent.futures as cf

    man = json.load(open(os.path.join(VERIF, "MANIFEST.json")))
    props = [c["property_id"] for c in man["checks"]]

    def one(d):
        tmp = tempfile.mkdtemp(prefix="vrg_")
        try:
            shutil.copytree("/repo/tsdate", os.path.join(tmp, "tsdate"))
            r = subprocess.run(["patch", "-p1", "-s", "-d", tmp, "-i", os.path.join(d, "patch.diff")], capture_output=True, text=True)
            if r.returncode:
                return d, None
            fired = {}
            for p in props:
                env = dict(os.environ, VERIF_REPO=tmp, VERIF_NO_EVIDENCE="1")
                r = subprocess.run([os.path.join(VERIF, "check"), p], capture_output=True, text=True, env=env)
                if r.returncode:
                    first = [l.strip() for l in r.stdout.splitlines() if l.startswith("  ") or "ANALYSIS-ERROR" in l][:1]
                    fired[p] = dict(exit=r.returncode, first=(first or [""])[0][:400])
            return d, fired
        finally:
            shutil.rmtree(tmp, ignore_errors=True)

    dirs = [d for d in sorted(glob.glob(os.path.join(VERIF, "seeded", "*"))) if os.path.exists(os.path.join(d, "meta.json")) and sel in os.path.basename(d)]
    bad = 0
    with cf.ThreadPoolExecutor(4) as ex:
        for d, fired in ex.map(one, dirs):
            mp = os.path.join(d, "meta.json")
            m = json.load(open(mp))
            if fired is None:
                print(f"{os.path.basename(d):8s} PATCH-FAILED")
                bad += 1
                continue
            m["detected_by"] = {p: v["first"] for p, v in fired.items() if v["exit"] == 1}
            m["analysis_errors"] = {p: v["first"] for p, v in fired.items() if v["exit"] == 2}
            own = m["property"] in m["detected_by"]
            m["verdict"] = "detected by the property's own check" if own else ("detected by other checks only" if m["detected_by"] else "not detected")
            json.dump(m, open(mp, "w"), indent=1)
            exp = m.get("expected_undetected")
            status = "own" if own else "other" if m["detected_by"] else ("undetected(expected)" if exp else "UNDETECTED")
            if status == "UNDETECTED":
                bad += 1
            print(f"{os.path.basename(d):8s} {status:20s} {sorted(m['detected_by'])} {('ERR ' + str(sorted(m['analysis_errors']))) if m['analysis_errors'] else ''}")
    print(f"{len(dirs)} seeded changes, {bad} undetected without a recorded reason")
    return 1 if bad else 0


def main():
    if "--record" in sys.argv:
        a = [x for x in sys.argv[1:] if x != "--record"]
        return record_seeded(a[0] if a else "")
    sel = sys.argv[1] if len(sys.argv) > 1 else ""
    rows = []
    for fn in sorted(glob.glob(os.path.join(VERIF, "regress", "*.fixdiff"))):
        name = os.path.basename(fn)[:-8]
        if sel in name:
            rows += run_variant(name, fn, True, MAP.get(name, []))
    # seeded changes: tools/regress.py --record
    bad = 0
    for r in rows:
        print(f"{r[0]:38s} {r[1]} {r[2]:10s} {r[3]}")
        bad += not r[2].startswith("detected")
    print(f"{len(rows)} runs, {bad} missed")
    return 1 if bad else 0

sys.exit(main())
