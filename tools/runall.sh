#!/bin/sh
# run every registered check (tier $1, default quick); print verdict lines and any warnings
cd "$(dirname "$0")/.." || exit 2
TIER=${1:-quick}
rc=0
for c in $(/venv/bin/python -c "import json;print(' '.join(x['property_id'] for x in json.load(open('MANIFEST.json'))['checks']))"); do
  out=$(./check "$c" --tier "$TIER" 2>&1); code=$?
  echo "$out" | grep -E "SELFVAL-WARNING|VIOLATION|ANALYSIS-ERROR|skipped \(anchor" 
  echo "$out" | tail -1
  [ $code -ne 0 ] && rc=1
done
exit $rc
