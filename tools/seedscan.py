#!/venv/bin/python
"""static-only scan: apply each candidate patch (dir/patch.diff) to a scratch copy of /repo/tsdate
and list the checks that exit non-zero.  usage: seedscan.py <dir>...  [--all-checks]"""
import json, os, shutil, subprocess, sys, tempfile, concurrent.futures as cf
VERIF = os.path.dirname(os.path.dirname(os.path.abspath(__file__)))
man = json.load(open(os.path.join(VERIF, "MANIFEST.json")))
PROPS = [c["property_id"] for c in man["checks"]]

def one(d):
    tmp = tempfile.mkdtemp(prefix="vss_")
    try:
        shutil.copytree("/repo/tsdate", os.path.join(tmp, "tsdate"))
        r = subprocess.run(["patch", "-p1", "-s", "-d", tmp, "-i", os.path.join(d, "patch.diff")], capture_output=True, text=True)
        if r.returncode:
            return d, {"PATCH": r.stdout[-200:]}
        out = {}
        for p in PROPS:
            env = dict(os.environ, VERIF_REPO=tmp, VERIF_NO_EVIDENCE="1")
            r = subprocess.run([os.path.join(VERIF, "check"), p], capture_output=True, text=True, env=env)
            if r.returncode:
                lines = [l.strip() for l in r.stdout.splitlines() if l.startswith("  ") or "ANALYSIS-ERROR" in l]
                out[p] = (r.returncode, lines[:2])
        return d, out
    finally:
        shutil.rmtree(tmp, ignore_errors=True)

dirs = [a for a in sys.argv[1:] if not a.startswith("--")]
with cf.ThreadPoolExecutor(4) as ex:
    for d, out in ex.map(one, dirs):
        files = subprocess.run("grep '^+++ ' %s | cut -c7-" % os.path.join(d, "patch.diff"), shell=True, capture_output=True, text=True).stdout.split()
        print(f"{d}  [{' '.join(files)}]  ->  {', '.join(f'{p}(exit {v[0]})' for p, v in out.items()) or 'NOTHING FIRES'}")
        for p, v in out.items():
            for l in v[1][:1] if isinstance(v, tuple) else [v]:
                print("      ", p, str(l)[:230])
