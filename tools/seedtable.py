#!/venv/bin/python
"""regenerate the seeded-change table of DESIGN.md §6.5 from seeded/*/meta.json"""
import glob, json, os, re
V = os.path.dirname(os.path.dirname(os.path.abspath(__file__)))
rows = ["| change | breaks | site | own check | other checks that fire | first report |", "|---|---|---|---|---|---|"]
n = own = other = 0
for mp in sorted(glob.glob(os.path.join(V, "seeded", "*", "meta.json"))):
    m = json.load(open(mp))
    name = os.path.basename(os.path.dirname(mp))
    det = m.get("detected_by", {})
    p = m["property"]
    first = det.get(p) or (next(iter(det.values())) if det else "")
    rid = re.search(r"\bR\d\d\.\d\b", first or "")
    site = re.match(r"(tsdate/\S+ \S+):", first or "")
    n += 1
    own += p in det
    other += (p not in det) and bool(det)
    rows.append(f"| {name} | {p} | {', '.join(f.replace('tsdate/', '') for f in m.get('files', []))} | {'yes' if p in det else 'no'} | {', '.join(k for k in sorted(det) if k != p) or '-'} | {(rid.group(0) + ' at ' + site.group(1)) if rid and site else (first[:60] if first else 'not detected (see text)')} |")
rows.append("")
rows.append(f"{n} kept changes: {own} detected by the property's own check, {other} by other checks only, {n - own - other} not detected.")
p = os.path.join(V, "DESIGN.md")
s = open(p).read()
block = "<!-- SEEDTABLE -->\n" + "\n".join(rows) + "\n<!-- /SEEDTABLE -->"
if "<!-- /SEEDTABLE -->" in s:
    s = re.sub(r"<!-- SEEDTABLE -->.*?<!-- /SEEDTABLE -->", lambda _: block, s, flags=re.S)
else:
    s = s.replace("<!-- SEEDTABLE -->", block)
open(p, "w").write(s)
print(rows[-1])
