#!/venv/bin/python
"""print a function of /repo/tsdate as the rules see it (after sa/norm.py canonicalisation)"""
import ast, os, sys
sys.path.insert(0, os.path.dirname(os.path.dirname(os.path.abspath(__file__))))
from sa.base import Repo
r = Repo()
f = r.fn(sys.argv[1], sys.argv[2])
print(ast.unparse(f))
