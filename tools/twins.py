#!/venv/bin/python
"""Behaviour-preserving twins of the whole package, to test that no check raises an alarm on
code where the properties still hold.

usage: twins.py [--keep DIR] [--only T1,T2,...] [--props C01,C02] [--emit NAME DIR]

Transformations (each applied to every module of /repo/tsdate, written to a scratch dir
outside /repo and /verif, removed afterwards):
  T1 unparse        ast.unparse of every module: comments gone, formatting/line numbers changed
  T2 rename-locals  every local variable (assigned in a function, not a parameter, not
                    global/nonlocal) is renamed v -> v_tw, consistently in nested closures;
                    functions that call locals()/vars()/eval are left alone
  T3 pass-padding   a `pass` statement is inserted between all statements of every function
  T4 return-temp    `return <expr>` becomes `_rv = <expr>; return _rv` (non-generator, expr not a bare name/constant)
  T5 arg-temps      in `x = f(..., <binop>, ...)` whose other arguments are names/constants/attributes,
                    the arithmetic argument is bound to a temporary first
  T6 compare-flip   `a < b` is written `b > a` (single, side-effect-free comparisons)
  T7 if-else-swap   `if c: A else: B` becomes `if not c: B else: A` (no elif chains)
  T8 keyword-reverse  keyword arguments of every call are listed in reverse order
  T9 logging-inserted  `logger.debug(..)` after every simple statement of non-jitted functions
  T10 docstrings-stripped
  T11 swap-independent  adjacent call-free assignments that do not depend on each other are swapped
  T12 rename-private-params  positional parameters of private (underscore) functions never called with keywords are renamed
Every registered check must exit 0 on every twin.
"""
import ast, json, os, shutil, subprocess, symtable, sys, tempfile

VERIF = os.path.dirname(os.path.dirname(os.path.abspath(__file__)))
SRC = os.path.join(os.environ.get("VERIF_REPO", "/repo"), "tsdate")
SUFFIX = "_tw"


# ---------------------------------------------------------------- T2
class Renamer(ast.NodeTransformer):
    def __init__(self, src, fname):
        self.top = symtable.symtable(src, fname, "exec")
        self.stack = []  # list of (symtable, mapping)

    def _child(self, tab, name, lineno):
        for c in tab.get_children():
            if c.get_name() == name and c.get_lineno() == lineno:
                return c
        return None

    def visit_Module(self, node):
        self.stack = [(self.top, {})]
        self.generic_visit(node)
        return node

    def visit_ClassDef(self, node):
        tab, mp = self.stack[-1]
        node.decorator_list = [self.visit(d) for d in node.decorator_list]
        node.bases = [self.visit(b) for b in node.bases]
        c = self._child(tab, node.name, node.lineno)
        if c is None:
            return node
        # class scope: no renaming of its own names; closures see enclosing function mapping
        self.stack.append((c, {"__class_scope__": True, **{k: v for k, v in mp.items()}}))
        node.body = [self.visit(s) for s in node.body]
        self.stack.pop()
        return node

    def _func(self, node):
        tab, mp = self.stack[-1]
        node.decorator_list = [self.visit(d) for d in node.decorator_list]
        for d in node.args.defaults + [x for x in node.args.kw_defaults if x is not None]:
            self.visit(d)
        lineno = node.lineno
        c = self._child(tab, node.name, lineno)
        if c is None:  # decorated functions: symtable reports the def line
            for cand in tab.get_children():
                if cand.get_name() == node.name and abs(cand.get_lineno() - lineno) <= len(node.decorator_list) + 40:
                    c = cand
                    break
        if c is None:
            return node
        uses_locals = any(isinstance(n, ast.Call) and isinstance(n.func, ast.Name) and n.func.id in ("locals", "vars", "eval", "exec") for n in ast.walk(node))
        new = {}
        for s in c.get_symbols():
            nm = s.get_name()
            if s.is_free():
                if nm in mp and not mp.get("__class_scope__") or (nm in mp):
                    new[nm] = mp[nm]
            elif s.is_local() and s.is_assigned() and not s.is_parameter() and not s.is_global() and not s.is_declared_global() and not s.is_imported() and not s.is_namespace() and not uses_locals and not nm.startswith("__"):
                new[nm] = nm + SUFFIX
        new.pop("__class_scope__", None)
        self.stack.append((c, new))
        node.body = [self.visit(s) for s in node.body]
        self.stack.pop()
        return node

    visit_FunctionDef = _func
    visit_AsyncFunctionDef = _func

    def visit_Lambda(self, node):
        # lambda parameters shadow; find child table
        tab, mp = self.stack[-1]
        params = {a.arg for a in node.args.args + node.args.kwonlyargs}
        self.stack.append((tab, {k: v for k, v in mp.items() if k not in params}))
        node.body = self.visit(node.body)
        self.stack.pop()
        return node

    def _comp(self, node):
        # comprehension variables are their own scope: names bound by the generators shadow
        tab, mp = self.stack[-1]
        bound = set()
        for g in node.generators:
            for n in ast.walk(g.target):
                if isinstance(n, ast.Name):
                    bound.add(n.id)
        # first iterable is evaluated in the enclosing scope
        node.generators[0].iter = self.visit(node.generators[0].iter)
        self.stack.append((tab, {k: v for k, v in mp.items() if k not in bound}))
        for i, g in enumerate(node.generators):
            if i:
                g.iter = self.visit(g.iter)
            g.ifs = [self.visit(x) for x in g.ifs]
        if isinstance(node, ast.DictComp):
            node.key = self.visit(node.key)
            node.value = self.visit(node.value)
        else:
            node.elt = self.visit(node.elt)
        self.stack.pop()
        return node

    visit_ListComp = visit_SetComp = visit_GeneratorExp = visit_DictComp = _comp

    def visit_Name(self, node):
        mp = self.stack[-1][1]
        if node.id in mp and node.id != "__class_scope__":
            node.id = mp[node.id]
        return node


def t_rename(src, fname):
    tree = ast.parse(src)
    Renamer(src, fname).visit(tree)
    return ast.unparse(tree)


# ---------------------------------------------------------------- T1, T3, T4, T5
def t_unparse(src, fname):
    return ast.unparse(ast.parse(src))


def _is_doc(s):
    return isinstance(s, ast.Expr) and isinstance(s.value, ast.Constant) and isinstance(s.value.value, str)


class Padder(ast.NodeTransformer):
    def _pad(self, body):
        out = []
        for i, s in enumerate(body):
            out.append(s)
            if not (i == 0 and _is_doc(s)) and i < len(body) - 1:
                out.append(ast.Pass())
        return out

    def generic_visit(self, node):
        super().generic_visit(node)
        infunc = getattr(self, "depth", 0) > 0
        if infunc:
            for f in ("body", "orelse", "finalbody"):
                b = getattr(node, f, None)
                if isinstance(b, list) and b and isinstance(b[0], ast.stmt):
                    setattr(node, f, self._pad(b))
        return node

    def visit_FunctionDef(self, node):
        self.depth = getattr(self, "depth", 0) + 1
        self.generic_visit(node)
        self.depth -= 1
        return node


def t_pad(src, fname):
    tree = ast.parse(src)
    Padder().visit(tree)
    return ast.unparse(ast.fix_missing_locations(tree))


class RetTemp(ast.NodeTransformer):
    def visit_FunctionDef(self, node):
        self.generic_visit(node)
        if any(isinstance(n, (ast.Yield, ast.YieldFrom)) for n in ast.walk(node)):
            return node
        return node

    def _block(self, body):
        out = []
        for s in body:
            if isinstance(s, ast.Return) and s.value is not None and not isinstance(s.value, (ast.Name, ast.Constant)):
                out.append(ast.Assign(targets=[ast.Name("_rv", ast.Store())], value=s.value, lineno=s.lineno))
                out.append(ast.Return(value=ast.Name("_rv", ast.Load())))
            else:
                out.append(s)
        return out

    def generic_visit(self, node):
        super().generic_visit(node)
        for f in ("body", "orelse", "finalbody"):
            b = getattr(node, f, None)
            if isinstance(b, list) and b and isinstance(b[0], ast.stmt) and not isinstance(node, (ast.Module, ast.ClassDef)):
                setattr(node, f, self._block(b))
        return node


def t_rettemp(src, fname):
    tree = ast.parse(src)
    RetTemp().visit(tree)
    return ast.unparse(ast.fix_missing_locations(tree))


def _simple(e):
    if isinstance(e, (ast.Name, ast.Constant)):
        return True
    if isinstance(e, ast.Attribute):
        return _simple(e.value)
    return False


def _arith(e):
    if isinstance(e, ast.BinOp):
        return all(_arith(x) or _simple(x) or (isinstance(x, ast.Subscript) and _simple(x.value) and _simple(x.slice)) for x in (e.left, e.right))
    return False


class ArgTemps(ast.NodeTransformer):
    n = 0

    def _block(self, body):
        out = []
        for s in body:
            if isinstance(s, ast.Assign) and isinstance(s.value, ast.Call) and _simple(s.value.func) and not s.value.keywords:
                args = s.value.args
                idx = [i for i, a in enumerate(args) if _arith(a)]
                if len(idx) == 1 and all(_simple(a) for i, a in enumerate(args) if i != idx[0]):
                    ArgTemps.n += 1
                    t = f"_at{ArgTemps.n}"
                    out.append(ast.Assign(targets=[ast.Name(t, ast.Store())], value=args[idx[0]], lineno=s.lineno))
                    args[idx[0]] = ast.Name(t, ast.Load())
            out.append(s)
        return out

    def generic_visit(self, node):
        super().generic_visit(node)
        for f in ("body", "orelse", "finalbody"):
            b = getattr(node, f, None)
            if isinstance(b, list) and b and isinstance(b[0], ast.stmt) and not isinstance(node, (ast.Module, ast.ClassDef)):
                setattr(node, f, self._block(b))
        return node


def t_argtemps(src, fname):
    tree = ast.parse(src)
    ArgTemps().visit(tree)
    return ast.unparse(ast.fix_missing_locations(tree))



# ---------------------------------------------------------------- T6 .. T12
def _pure(e):
    return not any(isinstance(x, (ast.Call, ast.Await, ast.Yield, ast.YieldFrom, ast.NamedExpr)) for x in ast.walk(e))


class CmpFlip(ast.NodeTransformer):
    FLIP = {ast.Lt: ast.Gt, ast.Gt: ast.Lt, ast.LtE: ast.GtE, ast.GtE: ast.LtE}

    def visit_Compare(self, n):
        self.generic_visit(n)
        if len(n.ops) == 1 and type(n.ops[0]) in self.FLIP and _pure(n.left) and _pure(n.comparators[0]):
            return ast.Compare(left=n.comparators[0], ops=[self.FLIP[type(n.ops[0])]()], comparators=[n.left])
        return n


def t_cmpflip(src, fname):
    tree = ast.parse(src)
    CmpFlip().visit(tree)
    return ast.unparse(ast.fix_missing_locations(tree))


class IfSwap(ast.NodeTransformer):
    def visit_If(self, n):
        self.generic_visit(n)
        if n.orelse and not (len(n.orelse) == 1 and isinstance(n.orelse[0], ast.If)) and not (len(n.body) == 1 and isinstance(n.body[0], ast.If)):
            return ast.If(test=ast.UnaryOp(op=ast.Not(), operand=n.test), body=n.orelse, orelse=n.body)
        return n


def t_ifswap(src, fname):
    tree = ast.parse(src)
    IfSwap().visit(tree)
    return ast.unparse(ast.fix_missing_locations(tree))


class KwReverse(ast.NodeTransformer):
    def visit_Call(self, n):
        self.generic_visit(n)
        if len(n.keywords) > 1 and all(k.arg is not None and _pure(k.value) for k in n.keywords):
            n.keywords = n.keywords[::-1]
        return n


def t_kwrev(src, fname):
    tree = ast.parse(src)
    KwReverse().visit(tree)
    return ast.unparse(ast.fix_missing_locations(tree))


class LogInsert(ast.NodeTransformer):
    """logger.debug after every simple statement of undecorated functions in modules that define `logger`"""

    def __init__(self):
        self.jit = 0
        self.depth = 0

    def visit_FunctionDef(self, n):
        jit = bool(n.decorator_list) and any("jit" in ast.unparse(d) for d in n.decorator_list)
        self.jit += jit
        self.depth += 1
        self.generic_visit(n)
        self.depth -= 1
        self.jit -= jit
        return n

    def generic_visit(self, node):
        super().generic_visit(node)
        if self.depth and not self.jit:
            for f in ("body", "orelse", "finalbody"):
                b = getattr(node, f, None)
                if isinstance(b, list) and b and isinstance(b[0], ast.stmt) and not isinstance(node, ast.ClassDef):
                    out = []
                    for i, s in enumerate(b):
                        out.append(s)
                        if isinstance(s, (ast.Assign, ast.AugAssign, ast.Expr)) and not (i == 0 and _is_doc(s)):
                            out.append(ast.Expr(ast.Call(func=ast.Attribute(value=ast.Name("logger", ast.Load()), attr="debug", ctx=ast.Load()), args=[ast.Constant("twin trace")], keywords=[])))
                    setattr(node, f, out)
        return node


def t_loginsert(src, fname):
    if "\nlogger = " not in src:
        return ast.unparse(ast.parse(src))
    tree = ast.parse(src)
    LogInsert().visit(tree)
    return ast.unparse(ast.fix_missing_locations(tree))


class DocStrip(ast.NodeTransformer):
    def _strip(self, n):
        self.generic_visit(n)
        if n.body and _is_doc(n.body[0]) and len(n.body) > 1:
            n.body = n.body[1:]
        return n

    visit_FunctionDef = visit_ClassDef = _strip


def t_docstrip(src, fname):
    tree = ast.parse(src)
    DocStrip().visit(tree)
    return ast.unparse(ast.fix_missing_locations(tree))


class SwapIndependent(ast.NodeTransformer):
    def _block(self, body):
        out = list(body)
        i = 0
        while i + 1 < len(out):
            a, b = out[i], out[i + 1]
            if all(isinstance(s, ast.Assign) and len(s.targets) == 1 and isinstance(s.targets[0], ast.Name) and _pure(s.value) for s in (a, b)):
                ta, tb = a.targets[0].id, b.targets[0].id
                na = {x.id for x in ast.walk(a.value) if isinstance(x, ast.Name)}
                nb = {x.id for x in ast.walk(b.value) if isinstance(x, ast.Name)}
                if ta != tb and ta not in nb and tb not in na:
                    out[i], out[i + 1] = b, a
                    i += 2
                    continue
            i += 1
        return out

    def generic_visit(self, node):
        super().generic_visit(node)
        for f in ("body", "orelse", "finalbody"):
            b = getattr(node, f, None)
            if isinstance(b, list) and b and isinstance(b[0], ast.stmt) and not isinstance(node, (ast.Module, ast.ClassDef)):
                setattr(node, f, self._block(b))
        return node


def t_swap(src, fname):
    tree = ast.parse(src)
    SwapIndependent().visit(tree)
    return ast.unparse(ast.fix_missing_locations(tree))



# ---------------------------------------------------------------- T12
def _kw_called(trees):
    """names of functions that are called with keyword arguments somewhere in the package"""
    out = set()
    for t in trees.values():
        for n in ast.walk(t):
            if isinstance(n, ast.Call) and n.keywords:
                f = n.func
                out.add(f.attr if isinstance(f, ast.Attribute) else f.id if isinstance(f, ast.Name) else "")
    return out


class ParamRename(ast.NodeTransformer):
    def __init__(self, kw):
        self.kw = kw

    def visit_FunctionDef(self, n):
        self.generic_visit(n)
        if not n.name.startswith("_") or n.name.startswith("__") or n.name in self.kw or n.args.vararg or n.args.kwarg or n.args.kwonlyargs:
            return n
        if any(isinstance(x, ast.Call) and isinstance(x.func, ast.Name) and x.func.id in ("locals", "vars") for x in ast.walk(n)):
            return n
        ren = {a.arg: a.arg + "_tw" for a in n.args.args if a.arg not in ("self", "cls")}
        # nested scopes that rebind a name are left alone entirely (keep it simple: skip such functions)
        for x in ast.walk(n):
            if x is not n and isinstance(x, (ast.FunctionDef, ast.Lambda)):
                inner = {a.arg for a in x.args.args}
                if inner & set(ren):
                    return n
        for a in n.args.args:
            if a.arg in ren:
                a.arg = ren[a.arg]
        for x in ast.walk(n):
            if isinstance(x, ast.Name) and x.id in ren:
                x.id = ren[x.id]
        return n


_PKG_TREES = None


def t_paramrename(src, fname):
    global _PKG_TREES
    if _PKG_TREES is None:
        _PKG_TREES = {}
        for fn in os.listdir(SRC):
            if fn.endswith(".py"):
                _PKG_TREES[fn] = ast.parse(open(os.path.join(SRC, fn)).read())
    tree = ast.parse(src)
    ParamRename(_kw_called(_PKG_TREES)).visit(tree)
    return ast.unparse(ast.fix_missing_locations(tree))


TWINS = {"T1": ("unparse", t_unparse), "T2": ("rename-locals", t_rename), "T3": ("pass-padding", t_pad),
         "T4": ("return-temp", t_rettemp), "T5": ("arg-temps", t_argtemps),
         "T6": ("compare-flip", t_cmpflip), "T7": ("if-else-swap", t_ifswap), "T8": ("keyword-reverse", t_kwrev),
         "T9": ("logging-inserted", t_loginsert), "T10": ("docstrings-stripped", t_docstrip), "T11": ("swap-independent", t_swap), "T12": ("rename-private-params", t_paramrename)}


def emit(tid, dest):
    os.makedirs(os.path.join(dest, "tsdate"), exist_ok=True)
    for root, dirs, files in os.walk(SRC):
        dirs[:] = [d for d in dirs if d != "__pycache__"]
        for fn in files:
            p = os.path.join(root, fn)
            rel = os.path.relpath(p, SRC)
            q = os.path.join(dest, "tsdate", rel)
            os.makedirs(os.path.dirname(q), exist_ok=True)
            if fn.endswith(".py") and fn != "_version.py":
                src = open(p).read()
                new = TWINS[tid][1](src, fn)
                compile(new, fn, "exec")
                open(q, "w").write(new + "\n")
            else:
                shutil.copy(p, q)


def main():
    a = sys.argv[1:]
    if "--emit" in a:
        i = a.index("--emit")
        emit(a[i + 1], a[i + 2])
        return 0
    only = a[a.index("--only") + 1].split(",") if "--only" in a else list(TWINS)
    man = json.load(open(os.path.join(VERIF, "MANIFEST.json")))
    props = a[a.index("--props") + 1].split(",") if "--props" in a else [c["property_id"] for c in man["checks"]]
    bad = 0
    for tid in only:
        tmp = tempfile.mkdtemp(prefix="vtw_")
        try:
            emit(tid, tmp)
            for p in props:
                env = dict(os.environ, VERIF_REPO=tmp, VERIF_NO_EVIDENCE="1")
                r = subprocess.run([os.path.join(VERIF, "check"), p], capture_output=True, text=True, env=env)
                if r.returncode != 0:
                    bad += 1
                    lines = [l.strip() for l in r.stdout.splitlines() if (l.startswith("  ") and "violated" in l.lower()) or "ANALYSIS-ERROR" in l or l.startswith("  ")]
                    print(f"{tid} {TWINS[tid][0]:14s} {p} exit={r.returncode}")
                    for l in lines[:6]:
                        print("      " + l[:260])
        finally:
            if "--keep" in a:
                print("kept", tmp)
            else:
                shutil.rmtree(tmp, ignore_errors=True)
    print(f"twins: {len(only)} transformations x {len(props)} checks, {bad} alarms")
    return 1 if bad else 0


sys.exit(main())
